// Shared trace analysis: windows, guard rounds, request tracking, plan steps.
// Written from the property statements; no FFSM2 dependency.
#pragma once
#include "trace.hpp"
#include <string>
#include <vector>

namespace vf {

enum WinType : uint8_t { WT_CONSTRUCT = 0, WT_OP, WT_TEARDOWN };

struct Round {
	uint32_t first = 0, last = 0;   // event span (first CB .. last event attributed)
	TrV pend;                       // pending transition shown to the guards of this round
	TrV curSeen;                    // current transition shown to the guards of this round
	bool hasExit = false, hasEntry = false, exitSelfSeen = false, entrySelfSeen = false, headSelfSeen = false;
	bool cancelled = false, exitCancelled = false, entryAfterExitCancel = false, entryBeforeExit = false;
	bool madeReq = false; TrV lastReq;
	uint8_t exitState = NOID, entryState = NOID;
	bool pendInconsistent = false;
};

struct PlanStep {
	bool present = false;
	uint32_t preEv = 0, postEv = 0;      // events carrying P_pre / P_post snapshots
	std::vector<TaskV> pre, post, fired;
	bool postIsSubseq = true;
	int outcome = 0;                      // 0 none, 1 planSucceeded, 2 planFailed, 3 hidden outcome (headless machine)
	uint32_t outcomeEv = 0;
	int outcomes = 0;
};

struct Win {
	uint8_t type = WT_OP, inst = 0, code = 0, op = 0;
	uint32_t b = 0, e = 0;               // [b, e): b = BEGIN / NOTE_CONSTRUCT / NOTE_DESTROY; e-1 = END when complete
	bool complete = false, aborted = false;
	bool processing = false;             // update / react / immediate
	bool activation = false;             // construct (automatic) / enter
	uint8_t activeBefore = NOID, activeAfter = NOID;
	std::vector<Round> rounds;
	int survivor = -1;                    // index of the last passing round, -1 none
	bool outKnownAtStart = false; TrV outAtStart;   // tracked outstanding request when guard processing started
	uint32_t phaseEnd = 0;               // index one past the last event of the phase part (update/react)
	PlanStep plan;
	bool leftoverFromLimit = false;      // this window's round 1 evaluates a request left over by the limit
	TrV lostRequest;                     // a guard request that was neither evaluated, nor left outstanding, nor a redundant redirect
};

struct Ann {   // per event annotation
	int32_t win = -1, round = -1;
	uint8_t outKnown = 0; TrV out;       // expected control.request() at this callback, before its own actions
	uint8_t dead = 0;                    // instance abandoned / not analysable here
};

struct InstTrack {
	bool constructed = false, dead = false;
	TrV out; bool outKnown = true;       // tracked outstanding request (independent tagging from ACT/op events)
	bool leftover = false;               // `out` is a request left over by the substitution limit
};

struct Analysis {
	const Trace* t = nullptr;
	std::vector<Win> wins;
	std::vector<Ann> ann;
	bool parseOk = true;
	std::string parseMsg;
};

inline TrV mkReq(uint8_t origin, uint8_t dest, uint8_t seed) {
	TrV r; r.valid = 1; r.origin = origin; r.dest = dest; r.hasPay = seed != 0; r.seed = seed; return r;
}
inline bool isGuard(uint8_t m) { return m == M_ENTRY_GUARD || m == M_EXIT_GUARD; }
inline bool isLife(uint8_t m) { return m == M_ENTER || m == M_REENTER || m == M_EXIT; }
inline bool isUpdPhase(uint8_t m) { return m == M_PRE_UPDATE || m == M_UPDATE || m == M_POST_UPDATE; }
inline bool isReactPhase(uint8_t m) { return m == M_PRE_REACT || m == M_REACT || m == M_POST_REACT; }
inline bool isPhase(uint8_t m) { return isUpdPhase(m) || isReactPhase(m); }
inline bool isOutcome(uint8_t m) { return m == M_PLAN_SUCCEEDED || m == M_PLAN_FAILED; }
inline bool hasSnap(const Ev& e) { return e.live && (e.kind == EV_CB || e.kind == EV_BEGIN || e.kind == EV_END || (e.kind == EV_NOTE && e.method == NOTE_AFTER)); }

inline std::vector<TaskV> snap(const Trace& t, const Ev& e) { return std::vector<TaskV>(t.pool + e.planOff, t.pool + e.planOff + e.planLen); }

inline void parseWindows(const Trace& t, Analysis& A) {
	A.wins.clear();
	int open = -1;
	for (uint32_t i = 0; i < t.n; ++i) {
		const Ev& e = t.ev[i];
		if (open >= 0) {
			Win& w = A.wins[open];
			if (e.kind == EV_NOTE && e.method == NOTE_BUDGET) w.aborted = true;
			if (w.type == WT_CONSTRUCT && e.kind == EV_END && e.method == OP_RECONSTRUCT && e.inst == w.inst) { w.e = i + 1; w.complete = true; open = -1; continue; }
			if (w.type == WT_OP && e.kind == EV_END && e.inst == w.inst && e.op == w.op && e.method == w.code) { w.e = i + 1; w.complete = true; open = -1; continue; }
			if (w.type == WT_TEARDOWN && e.kind == EV_NOTE && (e.method == NOTE_DESTROY || e.method == NOTE_OVERFLOW)) { w.e = i; w.complete = true; open = -1; /* fallthrough to open a new one */ }
			else if (e.kind == EV_BEGIN || (e.kind == EV_NOTE && (e.method == NOTE_FORK_BEGIN || e.method == NOTE_FORK_END) )) {
				if (w.type == WT_TEARDOWN) { w.e = i; w.complete = true; open = -1; }
				else if (e.kind == EV_BEGIN) { w.e = i; w.complete = false; open = -1; }  // aborted op
				else continue;
			} else continue;
		}
		if (e.kind == EV_BEGIN) {
			Win w; w.type = WT_OP; w.inst = e.inst; w.code = e.method; w.op = e.op; w.b = i; w.e = t.n;
			A.wins.push_back(w); open = int(A.wins.size()) - 1;
		} else if (e.kind == EV_NOTE && e.method == NOTE_CONSTRUCT) {
			Win w; w.type = WT_CONSTRUCT; w.inst = e.inst; w.code = OP_RECONSTRUCT; w.op = e.op; w.b = i; w.e = t.n;
			A.wins.push_back(w); open = int(A.wins.size()) - 1;
		} else if (e.kind == EV_NOTE && e.method == NOTE_DESTROY) {
			Win w; w.type = WT_TEARDOWN; w.inst = e.inst; w.code = OP_EXIT; w.op = e.op; w.b = i; w.e = t.n;
			A.wins.push_back(w); open = int(A.wins.size()) - 1;
		}
	}
	if (open >= 0) { Win& w = A.wins[open]; w.e = t.n; w.complete = (w.type == WT_TEARDOWN); }
}

// Group the guard callbacks of a window into rounds (one request evaluated per round).
inline void parseRounds(const Trace& t, Win& w, bool activation, uint32_t from, uint32_t to) {
	const Info& f = t.info;
	int cur = -1;
	for (uint32_t i = from; i < to; ++i) {
		const Ev& e = t.ev[i];
		if (e.inst != w.inst) continue;
		if (e.kind == EV_CB && isGuard(e.method)) {
			bool startNew = false;
			if (cur < 0) startNew = true;
			else {
				Round& r = w.rounds[cur];
				if (!activation) {
					if (e.method == M_EXIT_GUARD && (r.exitSelfSeen || r.hasEntry)) startNew = true;
				} else {
					if (f.head) { if (e.state == NOID && (r.headSelfSeen || r.entrySelfSeen)) startNew = true; }
					else if (r.entrySelfSeen) startNew = true;
				}
			}
			if (startNew) { Round r; r.first = i; r.pend = e.pend; r.curSeen = e.cur; w.rounds.push_back(r); cur = int(w.rounds.size()) - 1; }
			Round& r = w.rounds[cur];
			r.last = i;
			if (!(r.pend == e.pend)) r.pendInconsistent = true;
			if (e.method == M_EXIT_GUARD) {
				if (r.hasEntry) r.entryBeforeExit = true;
				r.hasExit = true; r.exitState = e.state;
				if (e.who == WHO_SELF) r.exitSelfSeen = true;
			} else {
				if (e.state == NOID) { if (e.who == WHO_SELF) r.headSelfSeen = true; }
				else {
					if (r.exitCancelled) r.entryAfterExitCancel = true;
					r.hasEntry = true; r.entryState = e.state;
					if (e.who == WHO_SELF) r.entrySelfSeen = true;
				}
			}
		} else if (cur >= 0 && e.kind == EV_ACT && isGuard(e.d)) {
			Round& r = w.rounds[cur];
			r.last = i;
			if (e.method == ACT_CANCEL) { r.cancelled = true; if (e.d == M_EXIT_GUARD) r.exitCancelled = true; }
			if (e.method == ACT_REQUEST) { r.madeReq = true; r.lastReq = mkReq(e.state, e.a, e.c); }
		}
	}
	w.survivor = -1;
	for (size_t k = 0; k < w.rounds.size(); ++k) if (!w.rounds[k].cancelled) w.survivor = int(k);
	if (activation) {
		// round 0 is the evaluation of the initial state itself (no pending transition); it names no request
		if (w.survivor == 0 && !w.rounds[0].pend.valid) w.survivor = -1;
	}
}

// y must be an in-order remainder of x. Matching is done from the END: a correct plan step removes a prefix-structured
// set, which this matching recovers exactly even when tasks repeat. `mask` (optional) marks the removed positions of x.
inline bool subseqDiff(const std::vector<TaskV>& x, const std::vector<TaskV>& y, std::vector<TaskV>& removed, std::vector<char>* mask = nullptr) {
	removed.clear();
	std::vector<char> m(x.size(), 1);
	size_t j = y.size();
	for (size_t i = x.size(); i-- > 0;) {
		if (j > 0 && x[i] == y[j - 1]) { --j; m[i] = 0; }
	}
	for (size_t i = 0; i < x.size(); ++i) if (m[i]) removed.push_back(x[i]);
	if (mask) *mask = m;
	return j == 0;
}

// what is left outstanding once the guard rounds of a window are over
inline void settle(InstTrack& S, Win& w, const Info& f) {
	const size_t limit = f.L;
	size_t evals = w.rounds.size();
	if (w.activation && evals > 0) evals -= 1;   // the initial evaluation is not a substitution
	if (S.out.valid) {
		if (evals >= limit) { S.leftover = true; S.outKnown = false; }   // limit reached: the request stays outstanding -- or was silently dropped as redundant;
		                                                                   // not decidable from outside, so re-synchronise from control.request()
		else {
			// below the limit every guard request gets its own round, except the redundant redirect: a request for the destination
			// that has already been accepted on behalf of an external, payload-free request changes nothing and may be skipped
			const TrV* acc = w.survivor >= 0 ? &w.rounds[w.survivor].pend : nullptr;
			const bool redundant = acc && acc->valid && acc->dest == S.out.dest && acc->origin == NOID && !acc->hasPay;
			if (!redundant) w.lostRequest = S.out;
			S.out = TrV{}; S.outKnown = true;
		}
	}
}

inline void analyse(const Trace& t, Analysis& A) {
	A.t = &t;
	A.parseOk = true;
	parseWindows(t, A);
	A.ann.assign(t.n, Ann{});
	InstTrack is[3];
	const Info& f = t.info;

	for (size_t wi = 0; wi < A.wins.size(); ++wi) {
		Win& w = A.wins[wi];
		InstTrack& S = is[w.inst % 3];
		for (uint32_t i = w.b; i < w.e; ++i) A.ann[i].win = int32_t(wi);
		if (S.dead) { for (uint32_t i = w.b; i < w.e; ++i) A.ann[i].dead = 1; continue; }
		const Ev& first = t.ev[w.b];
		const Ev* last = w.complete && w.type != WT_TEARDOWN ? &t.ev[w.e - 1] : nullptr;
		if (w.type == WT_OP) w.activeBefore = first.mAct;
		if (last) w.activeAfter = last->mAct;
		w.processing = w.type == WT_OP && (w.code == OP_UPDATE || w.code == OP_REACT || w.code == OP_IMMEDIATE);
		w.activation = (w.type == WT_CONSTRUCT && !f.manual) || (w.type == WT_OP && w.code == OP_ENTER);

		if (w.type == WT_OP && w.code == OP_COPY && first.inst == 2) { is[2] = is[first.a % 3]; is[2].constructed = true; }
		if (w.type == WT_CONSTRUCT) { S = InstTrack{}; S.constructed = true; }

		// --- walk the window, tracking the outstanding request ---------------------------------
		if (w.type == WT_OP && (w.code == OP_CHANGE || w.code == OP_IMMEDIATE)) { S.out = mkReq(NOID, first.a, first.c); S.outKnown = true; S.leftover = false; }
		if (w.type == WT_OP && w.code == OP_LOAD) { S.out = TrV{}; S.outKnown = false; S.leftover = false; }   // load discards the request; whether its callbacks still see the old one is not specified

		// phase part and plan step (update / react)
		uint32_t procFrom = w.b + 1;
		if (w.type == WT_OP && (w.code == OP_UPDATE || w.code == OP_REACT)) {
			uint32_t pe = w.b + 1;
			bool prevIsPhaseAct = false;
			for (uint32_t i = w.b + 1; i < w.e; ++i) {
				const Ev& e = t.ev[i];
				if (e.kind == EV_CB && !isPhase(e.method)) break;
				if (e.kind == EV_END) break;
				// events that belong to a phase callback: the callback, its actions, their records and results, its after-note
				bool mine = false;
				if (e.kind == EV_CB) mine = true;
				else if (e.kind == EV_ACT) mine = isPhase(e.d);
				else if (e.kind == EV_NOTE && e.method == NOTE_AFTER) mine = isPhase(e.d);
				else if (e.kind == EV_NOTE && e.method == NOTE_APPEND_RESULT) mine = prevIsPhaseAct;
				else if (e.kind == EV_LOG) mine = prevIsPhaseAct && e.method != LOG_METHOD;
				if (mine) pe = i + 1;
				if (e.kind == EV_ACT) prevIsPhaseAct = isPhase(e.d);
				else if (!(e.kind == EV_LOG && prevIsPhaseAct && e.method != LOG_METHOD)) prevIsPhaseAct = false;
			}
			w.phaseEnd = pe;
			procFrom = pe;
		}
		// annotate expected outstanding request at each CB and update from actions
		bool inGuards = false;
		int roundIdx = -1;
		// first pass for rounds (needs only CB/ACT structure)
		if (w.processing || w.activation || w.type == WT_OP || w.type == WT_CONSTRUCT)
			parseRounds(t, w, w.activation, procFrom, w.e);
		(void) inGuards;

		// plan step analysis
		if (f.hasPlans && w.type == WT_OP && (w.code == OP_UPDATE || w.code == OP_REACT) && w.phaseEnd > w.b + 1) {
			PlanStep& p = w.plan;
			// P_pre: last snapshot in the phase part
			int pre = -1;
			for (uint32_t i = w.b; i < w.phaseEnd; ++i) if (hasSnap(t.ev[i]) && t.ev[i].inst == w.inst) pre = int(i);
			int post = -1;
			for (uint32_t i = w.phaseEnd; i < w.e; ++i) if (hasSnap(t.ev[i]) && t.ev[i].inst == w.inst) { post = int(i); break; }
			if (pre >= 0 && post >= 0) {
				p.present = true; p.preEv = uint32_t(pre); p.postEv = uint32_t(post);
				p.pre = snap(t, t.ev[pre]); p.post = snap(t, t.ev[post]);
				for (uint32_t i = w.phaseEnd; i < w.e; ++i) {
					const Ev& e = t.ev[i];
					if (e.kind == EV_CB && isOutcome(e.method) && e.who == WHO_SELF) {
						if (!p.outcomes) { p.outcome = e.method == M_PLAN_SUCCEEDED ? 1 : 2; p.outcomeEv = i; }
						++p.outcomes;
					}
				}
				p.postIsSubseq = subseqDiff(p.pre, p.post, p.fired);
				if (!f.head && !p.outcome && !p.pre.empty() && p.post.empty()) {
					// headless machine: a plan outcome is delivered to an empty root and is invisible to callbacks.
					// The plan emptied either because every task fired (then the guards evaluate the last task's request first)
					// or because of a hidden outcome.
					const TaskV& q = p.pre.back();
					const bool firedAll = !w.rounds.empty() && w.rounds[0].pend.valid && w.rounds[0].pend.origin == q.origin && w.rounds[0].pend.dest == q.dest &&
						w.rounds[0].pend.hasPay == q.hasPay && (!q.hasPay || w.rounds[0].pend.seed == q.seed);
					if (!firedAll) { p.outcome = 3; p.fired.clear(); }
				}
				if (p.outcome == 1 || p.outcome == 2) { p.fired.clear(); if (p.pre.size() != p.post.size()) p.postIsSubseq = false; }
			}
		}

		// second pass: request tracking + annotations
		size_t nextRound = 0;
		bool planStepDone = false, settled = false;
		for (uint32_t i = w.b; i < w.e; ++i) {
			const Ev& e = t.ev[i];
			if (e.inst != w.inst) continue;
			if (e.kind == EV_NOTE && e.method == NOTE_BUDGET) { S.dead = true; break; }
			// plan step happens between phaseEnd-1 and phaseEnd
			if (!planStepDone && w.plan.present && i >= w.phaseEnd) {
				planStepDone = true;
				if (!w.plan.fired.empty()) { const TaskV& q = w.plan.fired.back(); S.out = mkReq(q.origin, q.dest, q.hasPay ? q.seed : 0); S.outKnown = true; S.leftover = false; }
			}
			// entering a round: the tracked request becomes the pending transition
			if (nextRound < w.rounds.size() && i == w.rounds[nextRound].first) {
				if (nextRound == 0) { w.outKnownAtStart = S.outKnown; w.outAtStart = S.out; w.leftoverFromLimit = S.leftover; }
				roundIdx = int(nextRound);
				++nextRound;
				if (!(w.activation && roundIdx == 0)) { S.out = TrV{}; S.outKnown = true; S.leftover = false; }
			}
			// guard processing is over once an event past the last round is reached: settle what is left outstanding
			if (!settled && (w.processing || w.activation) && !w.rounds.empty() && nextRound == w.rounds.size() && i > w.rounds.back().last &&
				!(e.kind == EV_ACT || (e.kind == EV_NOTE && (e.method == NOTE_AFTER || e.method == NOTE_APPEND_RESULT || e.method == NOTE_EXCLUDED_ACTIVATION_VETO)) || e.kind == EV_LOG)) {
				settled = true;
				settle(S, w, f);
			}
			A.ann[i].round = roundIdx;
			if (e.kind == EV_CB) { A.ann[i].outKnown = S.outKnown; A.ann[i].out = S.out; }
			if (e.kind == EV_ACT && e.method == ACT_REQUEST) { S.out = mkReq(e.state, e.a, e.c); S.outKnown = true; S.leftover = false; }
		}
		// after processing: what is left outstanding?
		if ((w.processing || w.activation) && w.complete && !settled) {
			// no guard round ran at all: whatever is outstanding now is what processing started (and ended) with
			if (w.processing && w.rounds.empty()) { w.outKnownAtStart = S.outKnown; w.outAtStart = S.outKnown ? S.out : TrV{}; w.leftoverFromLimit = S.leftover; }
			settle(S, w, f);
		}
		// deactivation discards the outstanding request (its exit callbacks still see it)
		if ((w.type == WT_OP && (w.code == OP_EXIT || w.code == OP_RECONSTRUCT)) || w.type == WT_TEARDOWN) { S.out = TrV{}; S.outKnown = true; S.leftover = false; }
		// load: the old request is gone; a request made through the machine by one of load's own exit / enter / reenter callbacks stays outstanding
		if (w.type == WT_OP && w.code == OP_LOAD) { S.outKnown = true; S.leftover = false; if (last && last->mAct == NOID) S.out = TrV{}; }   // (loading an inactive snapshot is a deactivation)
		if (w.aborted) S.dead = true;
		// resync unknown from the library's own report at the next callback (checks relying on it are skipped there)
		if (!S.outKnown) {
			// look ahead: next CB of this instance tells control.request(); use it to resync
			for (uint32_t i = w.e; i < t.n; ++i) {
				const Ev& e = t.ev[i];
				if (e.inst != w.inst) continue;
				if (e.kind == EV_BEGIN && (e.method == OP_CHANGE || e.method == OP_IMMEDIATE || e.method == OP_LOAD || e.method == OP_EXIT)) break;
				if (e.kind == EV_CB) { S.out = e.req; S.leftover = e.req.valid != 0; if (!e.req.valid) S.leftover = false; break; }
			}
		}
	}
}

}  // namespace vf
