// evaluate(): run one case on the zoo, analyse, apply the armed predicates and the cross-run relations
// (fill independence for C09/C17/C18, logger independence for C16). Shared by pbt, fuzz target and replayer.
#pragma once
#include "predicates.hpp"
#include <vector>

namespace vf {


using RunFn = void (*)(const Case&, Trace&, const RunOpts&);
extern RunFn g_zoo[];
int zooCount();

struct EvalCtx {
	Trace main, shadow, main2;
	Analysis A;
	uint64_t classes = 0;
	uint64_t runs = 0;
	bool uninit = false;
};

inline RunFn zooFor(const Case& c, int& idx) {
	const int n = zooCount();
	idx = c.cfg % n;
	for (int k = 0; k < n; ++k) { if (g_zoo[(idx + k) % n]) { idx = (idx + k) % n; return g_zoo[idx]; } }
	return nullptr;
}

inline void evaluate(const Case& c, uint32_t armed, Verdict& V, EvalCtx& X) {
	int idx; RunFn fn = zooFor(c, idx);
	if (!fn) return;
	RunOpts ro; ro.uninit = X.uninit;
	fn(c, X.main, ro); ++X.runs;
	analyse(X.main, X.A);
	X.classes = classify(X.main, X.A);
	V.classes = X.classes;
	checkTrace(X.main, X.A, armed, V);   // (handles overflowed traces itself: only the termination oracle applies to them)
	if (X.main.overflow) return;
	auto on = [&](int k) { return (armed >> k) & 1u; };
	// fill independence: behaviour never depends on the prior contents of the memory the machine is built in
	if ((on(17) || on(9) || on(18)) && !X.uninit) {
		const uint64_t d0 = digest(X.main, DG_ALL);
		uint32_t hsh = 2166136261u;
		for (const Op& op : c.ops) hsh = (hsh ^ (op.code * 31u + op.a * 7u + uint32_t(op.acts.size()))) * 16777619u;
		const int fills[3] = {uint8_t(~c.fill), c.fill == 0 ? 0xFF : 0x00, 256 + int(hsh % 8u)};   // two byte fills and one word pattern (zoo.hpp)
		for (int k = 0; k < 3; ++k) {
			RunOpts r2; r2.fillOverride = fills[k];
			fn(c, X.shadow, r2); ++X.runs;
			if (X.shadow.overflow) continue;
			const uint64_t d1 = digest(X.shadow, DG_ALL);
			if (d0 != d1) {
				// find first differing event for the message
				uint32_t i = 0; const uint32_t n = X.main.n < X.shadow.n ? X.main.n : X.shadow.n;
				for (; i < n; ++i) if (renderEv(X.main, i) != renderEv(X.shadow, i)) break;
				const std::string msg = "behaviour depends on the memory fill pattern (0x" + std::to_string(c.fill) + " vs " + std::to_string(fills[k]) + "): first difference at event " + std::to_string(i) + ": " + (i < X.main.n ? renderEv(X.main, i) : std::string("<end>")) + "  VS  " + (i < X.shadow.n ? renderEv(X.shadow, i) : std::string("<end>"));
				if (on(17)) V.add(17, i, msg);
				if (on(9)) {
					// C09 speaks about plan outcomes only: report there when an outcome callback differs
					bool outcomeDiff = false;
					for (uint32_t q = 0; q < X.main.n || q < X.shadow.n; ++q) {
						const bool a = q < X.main.n && X.main.ev[q].kind == EV_CB && isOutcome(X.main.ev[q].method);
						const bool b = q < X.shadow.n && X.shadow.ev[q].kind == EV_CB && isOutcome(X.shadow.ev[q].method);
						if (a != b) { outcomeDiff = true; break; }
					}
					if (outcomeDiff) V.add(9, i, "plan outcome delivery depends on the memory fill pattern: " + msg);
				}
				if (on(18)) V.add(18, i, "read of an indeterminate value: " + msg);
				break;
			}
		}
	}
	// twins (C16): the same quiet history on a machine whose states all define their callbacks and on its twin with callback-less states.
	// Verbose logging records deliveries to states that define no callback, so both record sequences are identical; non-verbose logging
	// records exactly the deliveries to callbacks that exist (react-family records are emitted regardless of the class).
	if (on(16) && X.main.info.hasLog) {
		int twin = -1;
		if (idx == 0) twin = 10; else if (idx == 1) twin = 12; else if (idx == 10) twin = 0; else if (idx == 12) twin = 1;
		if (twin >= 0 && g_zoo[twin]) {
			Case q = c;
			q.ctor.clear(); for (Op& op : q.ops) op.acts.clear();   // quiet callbacks: the history is driven by the operations alone
			q.flags |= 1;
			RunOpts r2; r2.loggerMode = 2;
			const int full = (idx == 0 || idx == 1) ? idx : twin, bare = (idx == 0 || idx == 1) ? twin : idx;
			q.cfg = uint8_t(full); g_zoo[full](q, X.main2, r2); ++X.runs;
			q.cfg = uint8_t(bare); g_zoo[bare](q, X.shadow, r2); ++X.runs;
			if (!X.main2.overflow && !X.shadow.overflow) {
				const Info& fb = X.shadow.info;
				std::vector<uint32_t> a, b;
				for (uint32_t i = 0; i < X.main2.n; ++i) { const Ev& e = X.main2.ev[i]; if (e.kind == EV_LOG && e.method == LOG_METHOD) {
					const bool react = e.b == M_PRE_REACT || e.b == M_REACT || e.b == M_POST_REACT || e.b == M_QUERY;
					if (fb.verbose || react || defines(fb, e.a, e.b)) a.push_back((uint32_t(e.inst) << 16) | (uint32_t(e.a) << 8) | e.b); } }
				for (uint32_t i = 0; i < X.shadow.n; ++i) { const Ev& e = X.shadow.ev[i]; if (e.kind == EV_LOG && e.method == LOG_METHOD) b.push_back((uint32_t(e.inst) << 16) | (uint32_t(e.a) << 8) | e.b); }
				if (a != b) {
					size_t k = 0; while (k < a.size() && k < b.size() && a[k] == b[k]) ++k;
					V.add(16, 0, std::string(fb.verbose ? "verbose logging: the twin with callback-less states does not produce the same method records as the all-defined machine" : "non-verbose logging: the twin's method records are not exactly the records of the callbacks its states define") +
						" (first difference at record " + std::to_string(k) + ": " + (k < a.size() ? "expected s" + std::to_string(int((a[k] >> 8) & 0xFF) == 255 ? -1 : int((a[k] >> 8) & 0xFF)) + "." + methName(a[k] & 0xFF) : std::string("<end>")) + ", twin has " + (k < b.size() ? "s" + std::to_string(int((b[k] >> 8) & 0xFF) == 255 ? -1 : int((b[k] >> 8) & 0xFF)) + "." + methName(b[k] & 0xFF) : std::string("<end>")) + ")");
				}
			}
		}
	}
	// logger independence: attaching / detaching / omitting the logger never changes callbacks or state
	if (on(16) && X.main.info.hasLog) {
		const uint64_t d0 = digest(X.main, DG_NOLOG);
		for (int mode = 1; mode <= 2; ++mode) {
			RunOpts r2; r2.loggerMode = mode;
			fn(c, X.shadow, r2); ++X.runs;
			if (X.shadow.overflow) continue;
			if (digest(X.shadow, DG_NOLOG) != d0) { V.add(16, 0, mode == 1 ? "behaviour differs when the logger is never attached" : "behaviour differs when the logger is attached from construction and never detached"); break; }
		}
	}
}

}  // namespace vf
