// evaluate(): run one case on the zoo, analyse, apply the armed predicates and the cross-run relations
// (fill independence for C09/C17/C18, logger independence for C16). Shared by pbt, fuzz target and replayer.
#pragma once
#include "predicates.hpp"

namespace vf {


using RunFn = void (*)(const Case&, Trace&, const RunOpts&);
extern RunFn g_zoo[];
int zooCount();

struct EvalCtx {
	Trace main, shadow;
	Analysis A;
	uint64_t classes = 0;
	uint64_t runs = 0;
	bool uninit = false;
};

inline RunFn zooFor(const Case& c, int& idx) {
	const int n = zooCount();
	idx = c.cfg % n;
	for (int k = 0; k < n; ++k) { if (g_zoo[(idx + k) % n]) { idx = (idx + k) % n; return g_zoo[idx]; } }
	return nullptr;
}

inline void evaluate(const Case& c, uint32_t armed, Verdict& V, EvalCtx& X) {
	int idx; RunFn fn = zooFor(c, idx);
	if (!fn) return;
	RunOpts ro; ro.uninit = X.uninit;
	fn(c, X.main, ro); ++X.runs;
	analyse(X.main, X.A);
	X.classes = classify(X.main, X.A);
	V.classes = X.classes;
	checkTrace(X.main, X.A, armed, V);   // (handles overflowed traces itself: only the termination oracle applies to them)
	if (X.main.overflow) return;
	auto on = [&](int k) { return (armed >> k) & 1u; };
	// fill independence: behaviour never depends on the prior contents of the memory the machine is built in
	if ((on(17) || on(9) || on(18)) && !X.uninit) {
		const uint64_t d0 = digest(X.main, DG_ALL);
		const int fills[2] = {uint8_t(~c.fill), c.fill == 0 ? 0xFF : 0x00};
		for (int k = 0; k < 2; ++k) {
			RunOpts r2; r2.fillOverride = fills[k];
			fn(c, X.shadow, r2); ++X.runs;
			if (X.shadow.overflow) continue;
			const uint64_t d1 = digest(X.shadow, DG_ALL);
			if (d0 != d1) {
				// find first differing event for the message
				uint32_t i = 0; const uint32_t n = X.main.n < X.shadow.n ? X.main.n : X.shadow.n;
				for (; i < n; ++i) if (renderEv(X.main, i) != renderEv(X.shadow, i)) break;
				const std::string msg = "behaviour depends on the memory fill pattern (0x" + std::to_string(c.fill) + " vs " + std::to_string(fills[k]) + "): first difference at event " + std::to_string(i) + ": " + (i < X.main.n ? renderEv(X.main, i) : std::string("<end>")) + "  VS  " + (i < X.shadow.n ? renderEv(X.shadow, i) : std::string("<end>"));
				if (on(17)) V.add(17, i, msg);
				if (on(9)) {
					// C09 speaks about plan outcomes only: report there when an outcome callback differs
					bool outcomeDiff = false;
					for (uint32_t q = 0; q < X.main.n || q < X.shadow.n; ++q) {
						const bool a = q < X.main.n && X.main.ev[q].kind == EV_CB && isOutcome(X.main.ev[q].method);
						const bool b = q < X.shadow.n && X.shadow.ev[q].kind == EV_CB && isOutcome(X.shadow.ev[q].method);
						if (a != b) { outcomeDiff = true; break; }
					}
					if (outcomeDiff) V.add(9, i, "plan outcome delivery depends on the memory fill pattern: " + msg);
				}
				if (on(18)) V.add(18, i, "read of an indeterminate value: " + msg);
				break;
			}
		}
	}
	// logger independence: attaching / detaching / omitting the logger never changes callbacks or state
	if (on(16) && X.main.info.hasLog) {
		const uint64_t d0 = digest(X.main, DG_NOLOG);
		for (int mode = 1; mode <= 2; ++mode) {
			RunOpts r2; r2.loggerMode = mode;
			fn(c, X.shadow, r2); ++X.runs;
			if (X.shadow.overflow) continue;
			if (digest(X.shadow, DG_NOLOG) != d0) { V.add(16, 0, mode == 1 ? "behaviour differs when the logger is never attached" : "behaviour differs when the logger is attached from construction and never detached"); break; }
		}
	}
}

}  // namespace vf
