// Predicates for plans (C08-C10), serialization (C12), logging (C16), copies (C17), in-trace C18 oracles,
// and the class measurement. Written from the property statements.
#include "predicates.hpp"
#include <cstdarg>
#include <map>

namespace vf {

static std::string F(const char* fmt, ...) {
	char b[512];
	va_list ap; va_start(ap, fmt); vsnprintf(b, sizeof b, fmt, ap); va_end(ap);
	return b;
}
static int sidOf(uint8_t s) { return s == NOID ? -1 : int(s); }
static bool sameSeq(const std::vector<TaskV>& a, const std::vector<TaskV>& b) {
	if (a.size() != b.size()) return false;
	for (size_t i = 0; i < a.size(); ++i) if (!(a[i] == b[i])) return false;
	return true;
}
static std::string seqStr(const std::vector<TaskV>& a) {
	std::string s = "[";
	for (size_t i = 0; i < a.size() && i < 10; ++i) s += F("%s%u>%u%s", i ? " " : "", a[i].origin, a[i].dest, a[i].hasPay ? F(" p%u", a[i].seed).c_str() : "");
	if (a.size() > 10) s += " ...";
	return s + "]";
}
static bool isBare(const Info& f, uint8_t s) { return s != NOID && s < MASK_BITS && ((f.bare >> s) & 1); }
static int injOf(const Info& f, uint8_t s) { return s == NOID ? f.headInj : (s < MASK_BITS ? f.inj[s] : 0); }

// ---- report tracking shared by C08 / C09 -------------------------------------------------------------
struct Reports {
	Mask succS = 0, succP = 0, failS = 0, failP = 0;   // strict / permissive outstanding reports
	bool everAppended = false;
	void clearAll() { succS = succP = failS = failP = 0; }
};
struct CycleInfo {   // per update/react window, filled by walkReports
	bool valid = false;
	Reports atPlanStep;          // outstanding reports when the plan step ran
	bool failCalled = false;     // any fail() in this cycle's phase callbacks
	bool succCalled = false;     // any succeed() in this cycle's phase callbacks
	bool selfSucceed = false;    // the active state itself called succeed() for itself in this cycle
	bool selfFail = false;       // the active state itself called fail() for itself in a phase callback of this cycle
	bool everAppended = false;
};

static Mask bit(uint8_t s) { return s < MASK_BITS ? (Mask(1) << s) : Mask(0); }

// Walks the trace once and computes, for every window index, the CycleInfo.
static std::vector<CycleInfo> walkReports(const Trace& t, const Analysis& A) {
	std::vector<CycleInfo> out(A.wins.size());
	Reports R[3];
	for (size_t wi = 0; wi < A.wins.size(); ++wi) {
		const Win& w = A.wins[wi];
		Reports& r = R[w.inst % 3];
		if (A.ann[w.b].dead) continue;
		if (w.type == WT_CONSTRUCT) r = Reports{};
		if (w.type == WT_OP && w.code == OP_COPY && t.ev[w.b].inst == 2) r = R[t.ev[w.b].a % 3];
		const bool cycle = w.type == WT_OP && (w.code == OP_UPDATE || w.code == OP_REACT);
		CycleInfo ci; ci.valid = cycle && w.complete && !w.aborted;
		bool stepDone = false, outcomeCleared = false;
		int exitPending = -1;   // state whose exit delivery is in progress: its reports are discarded once the delivery (state, then injections, with their actions) is over
		if (w.type == WT_OP && (w.code == OP_SUCCEED || w.code == OP_FAIL)) {
			const Ev& b = t.ev[w.b];
			if (w.code == OP_SUCCEED) { r.succS |= bit(b.a); r.succP |= bit(b.a); } else { r.failS |= bit(b.a); r.failP |= bit(b.a); }
		}
		if (w.type == WT_OP && w.code == OP_PLAN_CLEAR) r.clearAll();
		if (w.type == WT_OP && (w.code == OP_LOAD)) { r.clearAll(); }
		for (uint32_t i = w.b; i < w.e; ++i) {
			const Ev& e = t.ev[i];
			if (e.inst != w.inst) continue;
			if (exitPending >= 0) {
				const bool sameDelivery = (e.kind == EV_CB && e.method == M_EXIT && e.state == uint8_t(exitPending)) || e.kind == EV_ACT || e.kind == EV_LOG ||
					(e.kind == EV_NOTE && (e.method == NOTE_AFTER || e.method == NOTE_APPEND_RESULT));
				if (!sameDelivery) { r.succS &= ~bit(uint8_t(exitPending)); r.failS &= ~bit(uint8_t(exitPending)); exitPending = -1; }
			}
			if (cycle && !stepDone && i >= w.phaseEnd) {
				stepDone = true;
				ci.atPlanStep = r; ci.everAppended = r.everAppended;
				// consumption by firing
				for (const TaskV& q : w.plan.fired) { r.succS &= ~bit(q.origin); r.succP &= ~bit(q.origin); }
			}
			// a plan outcome clears the plan and every report when its callback returns (also the hidden outcome of headless machines)
			if (cycle && w.plan.outcome && !outcomeCleared) {
				const bool own = i <= w.plan.outcomeEv || e.kind == EV_ACT || e.kind == EV_LOG || (e.kind == EV_NOTE && (e.method == NOTE_AFTER || e.method == NOTE_APPEND_RESULT)) || (e.kind == EV_CB && isOutcome(e.method));
				if (w.plan.outcome == 3 ? i >= w.plan.postEv : (i > w.plan.outcomeEv && !own)) { outcomeCleared = true; r.clearAll(); }
			}
			if (e.kind == EV_ACT) {
				const bool inPhase = cycle && i < w.phaseEnd;
				switch (e.method) {
				case ACT_SUCCEED_SELF: case ACT_SUCCEED_ID:
					r.succS |= bit(e.a); r.succP |= bit(e.a);
					if (inPhase) ci.succCalled = true;
					if (inPhase && e.state == w.activeBefore && e.a == w.activeBefore) ci.selfSucceed = true;
					break;
				case ACT_FAIL_SELF: case ACT_FAIL_ID:
					r.failS |= bit(e.a); r.failP |= bit(e.a);
					if (inPhase) ci.failCalled = true;
					if (inPhase && e.state == w.activeBefore && e.method == ACT_FAIL_SELF) ci.selfFail = true;
					break;
				case ACT_PLAN_CLEAR: r.clearAll(); break;
				default: break;
				}
			}
			if (e.kind == EV_NOTE && e.method == NOTE_APPEND_RESULT && e.a) r.everAppended = true;
			if (e.kind == EV_CB && e.who == WHO_SELF) {
				if (e.method == M_EXIT && e.state != NOID) { r.succS &= ~bit(e.state); r.failS &= ~bit(e.state); exitPending = e.state; }
				if (e.method == M_EXIT && e.state == NOID) { r = Reports{}; }   // deactivation
			}
			if (e.kind == EV_NOTE && e.method == NOTE_AFTER && isOutcome(e.d)) { /* cleared when the outcome callback returns */ }
		}
		if (exitPending >= 0) { r.succS &= ~bit(uint8_t(exitPending)); r.failS &= ~bit(uint8_t(exitPending)); }
		if (cycle && w.plan.outcome && !outcomeCleared) r.clearAll();
		if (!t.info.head && (w.type == WT_TEARDOWN || (w.type == WT_OP && w.code == OP_EXIT))) r = Reports{};
		if (w.type == WT_TEARDOWN) r = Reports{};
		out[wi] = ci;
	}
	return out;
}

struct ModelAt;
static void c10impl(const Trace& t, const Analysis& A, Verdict& V, std::vector<ModelAt>* atStep);
static std::vector<std::pair<bool, std::vector<TaskV>>> planAtSteps(const Trace& t, const Analysis& A);

// ------------------------------------------------------------------------------------------------
// C08: plan tasks fire in order, only for the succeeded active state, once
void c08(const Trace& t, const Analysis& A, Verdict& V) {
	const Info& f = t.info;
	if (!f.hasPlans || f.bare) return;
	const std::vector<CycleInfo> ci = walkReports(t, A);
	// "the plan" is what was appended and not removed since, in order (the vector model of C10), not merely what the library iterates
	const std::vector<std::pair<bool, std::vector<TaskV>>> model = planAtSteps(t, A);
	for (size_t wi = 0; wi < A.wins.size(); ++wi) {
		const Win& w = A.wins[wi];
		if (!w.complete || w.aborted || A.ann[w.b].dead || w.type != WT_OP) continue;
		const Ev& b = t.ev[w.b]; const Ev& e = t.ev[w.e - 1];
		const bool cycle = w.code == OP_UPDATE || w.code == OP_REACT;
		if (!cycle) {
			// tasks fire only in the plan step of update()/react(): elsewhere the plan changes only through explicit edits
			bool edits = w.code == OP_PLAN_APPEND || w.code == OP_PLAN_CLEAR || w.code == OP_PLAN_REMOVE || w.code == OP_LOAD || w.code == OP_EXIT || w.code == OP_ENTER || w.code == OP_RECONSTRUCT || w.code == OP_COPY;
			for (uint32_t i = w.b; i < w.e && !edits; ++i) if (t.ev[i].kind == EV_ACT && (t.ev[i].method == ACT_PLAN_APPEND || t.ev[i].method == ACT_PLAN_CLEAR || t.ev[i].method == ACT_PLAN_REMOVE)) edits = true;
			if (!edits && !sameSeq(snap(t, b), snap(t, e))) V.add(8, w.e - 1, F("plan changed %s -> %s during %s without any plan edit", seqStr(snap(t, b)).c_str(), seqStr(snap(t, e)).c_str(), opName(w.code)));
			continue;
		}
		const PlanStep& p = w.plan;
		if (!p.present) continue;
		const CycleInfo& c = ci[wi];
		const uint8_t active = w.activeBefore;
		// headless machine whose plan emptied while a failure was around: a hidden planFailed and "every task fired" cannot be told apart
		if (!f.head && !p.outcome && !p.pre.empty() && p.post.empty() && (c.failCalled || c.atPlanStep.failP)) continue;
		if (!p.outcome) {
			if (!p.postIsSubseq) { V.add(8, p.postEv, F("after the plan step the plan is %s, not an in-order remainder of %s", seqStr(p.post).c_str(), seqStr(p.pre).c_str())); continue; }
			// necessary conditions for every fired task
			std::vector<TaskV> rem; std::vector<char> mask;
			subseqDiff(p.pre, p.post, rem, &mask);
			for (size_t k = 0; k < p.pre.size(); ++k) {
				if (!mask[k]) continue;
				const TaskV& q = p.pre[k];
				if (q.origin != active) V.add(8, p.postEv, F("task %u>%u fired while s%d is active", q.origin, q.dest, sidOf(active)));
				if (!(c.atPlanStep.succS & bit(q.origin))) V.add(8, p.postEv, F("task %u>%u fired without an outstanding success report for s%u", q.origin, q.dest, q.origin));
				for (size_t m = 0; m < k; ++m) if (p.pre[m].origin != q.origin) { V.add(8, p.postEv, F("task %u>%u fired although task %u>%u with a different origin is ahead of it", q.origin, q.dest, p.pre[m].origin, p.pre[m].dest)); break; }
			}
			// the fired request is the one the guards then evaluate (origin = task origin)
			if (!p.fired.empty() && !w.rounds.empty()) {
				const TaskV& q = p.fired.back(); const TrV& pd = w.rounds[0].pend;
				if (!(pd.valid && pd.origin == q.origin && pd.dest == q.dest)) V.add(8, w.rounds[0].first, F("task %u>%u fired but guards evaluate %s", q.origin, q.dest, trStr(pd).c_str()));
			}
			if (!p.fired.empty() && w.rounds.empty()) V.add(8, w.e - 1, "a task fired but its request was never evaluated");
			// sufficiency
			if (!p.pre.empty() && p.pre[0].origin == active && c.selfSucceed && (c.atPlanStep.succS & bit(active)) && !c.failCalled && c.atPlanStep.failP == 0) {
				if (p.fired.empty() || !(p.fired[0] == p.pre[0])) V.add(8, p.postEv, F("first task %u>%u did not fire although s%d is active and reported success in this cycle with no failure outstanding", p.pre[0].origin, p.pre[0].dest, sidOf(active)));
			}
			// the same two rules against the plan as the edit history defines it (differs from the iterated plan only if tasks were lost or invented)
			if (wi < model.size() && model[wi].first && !sameSeq(model[wi].second, p.pre)) {
				const std::vector<TaskV>& plan = model[wi].second;
				std::vector<char> used(plan.size(), 0);
				for (const TaskV& q : p.fired) {
					size_t k = 0;
					while (k < plan.size() && (used[k] || !(plan[k] == q))) ++k;
					if (k == plan.size()) { V.add(8, p.postEv, F("task %u>%u fired but the plan (appended and not removed: %s) holds no such task", q.origin, q.dest, seqStr(plan).c_str())); continue; }
					used[k] = 1;
					for (size_t m = 0; m < k; ++m) if (!used[m] && plan[m].origin != q.origin) { V.add(8, p.postEv, F("task %u>%u fired although task %u>%u with a different origin was appended before it and never removed (plan %s, iterated as %s)", q.origin, q.dest, plan[m].origin, plan[m].dest, seqStr(plan).c_str(), seqStr(p.pre).c_str())); break; }
				}
				if (!plan.empty() && plan[0].origin == active && c.selfSucceed && (c.atPlanStep.succS & bit(active)) && !c.failCalled && c.atPlanStep.failP == 0) {
					if (p.fired.empty() || !(p.fired[0] == plan[0])) V.add(8, p.postEv, F("first task %u>%u (plan %s, iterated as %s) did not fire although s%d is active and reported success in this cycle with no failure outstanding", plan[0].origin, plan[0].dest, seqStr(plan).c_str(), seqStr(p.pre).c_str(), sidOf(active)));
				}
			}
		}
	}
}

// ------------------------------------------------------------------------------------------------
// C09: planSucceeded / planFailed exactly when warranted
void c09(const Trace& t, const Analysis& A, Verdict& V) {
	const Info& f = t.info;
	if (!f.hasPlans || !f.head || f.bare) return;
	const std::vector<CycleInfo> ci = walkReports(t, A);
	const std::vector<std::pair<bool, std::vector<TaskV>>> model = planAtSteps(t, A);   // the plan as the edit history defines it
	for (size_t wi = 0; wi < A.wins.size(); ++wi) {
		const Win& w = A.wins[wi];
		if (A.ann[w.b].dead) continue;
		const bool cycle = w.type == WT_OP && (w.code == OP_UPDATE || w.code == OP_REACT);
		// outcome callbacks only inside the plan step of a cycle
		for (uint32_t i = w.b; i < w.e; ++i) {
			const Ev& e = t.ev[i];
			if (e.inst != w.inst || e.kind != EV_CB || !isOutcome(e.method)) continue;
			if (!cycle) { V.add(9, i, F("%s delivered outside update()/react()", methName(e.method))); continue; }
			if (i < w.phaseEnd) V.add(9, i, F("%s delivered before the phase callbacks finished", methName(e.method)));
			if (!w.rounds.empty() && i > w.rounds[0].first) V.add(9, i, F("%s delivered after guard processing began", methName(e.method)));
		}
		if (!cycle || !w.complete || w.aborted) continue;
		const PlanStep& p = w.plan;
		const CycleInfo& c = ci[wi];
		if (!p.present) continue;
		if (p.outcomes > 1) V.add(9, p.outcomeEv, "more than one plan outcome delivered in one cycle");
		if (p.outcome) {
			if (!c.everAppended) V.add(9, p.outcomeEv, F("%s delivered although no task was ever added since activation (fill=0x%02x)", p.outcome == 1 ? "planSucceeded" : "planFailed", f.fill));
			if (p.outcome == 2) {
				if (c.atPlanStep.failS == 0 && !c.failCalled) V.add(9, p.outcomeEv, "planFailed delivered in a cycle without any outstanding failure report");
				if (!sameSeq(p.pre, snap(t, t.ev[p.outcomeEv]))) V.add(9, p.outcomeEv, "a task fired in a cycle that delivered planFailed");
			} else {
				if (c.atPlanStep.succS == 0 && !c.succCalled) V.add(9, p.outcomeEv, "planSucceeded delivered in a cycle without any outstanding success report");
				if (!p.pre.empty()) V.add(9, p.outcomeEv, F("planSucceeded delivered while tasks remain: %s", seqStr(p.pre).c_str()));
				else if (wi < model.size() && model[wi].first && !model[wi].second.empty()) V.add(9, p.outcomeEv, F("planSucceeded delivered while tasks that were appended and neither removed nor fired remain: %s (the plan iterates as empty)", seqStr(model[wi].second).c_str()));
			}
			// after the callback returns the plan is empty
			bool passedOwn = false;
			for (uint32_t i = p.outcomeEv + 1; i < w.e; ++i) {
				const Ev& e = t.ev[i];
				if (e.inst != w.inst) continue;
				if (e.kind == EV_NOTE && e.method == NOTE_AFTER && isOutcome(e.d) && !passedOwn) continue;
				if (e.kind == EV_CB && isOutcome(e.method)) continue;
				if (hasSnap(e)) { passedOwn = true; if (e.planLen != 0) V.add(9, i, F("plan not empty after %s returned: %s", p.outcome == 1 ? "planSucceeded" : "planFailed", seqStr(snap(t, e)).c_str())); break; }
			}
		}
		// sufficiency for failure
		if (!p.pre.empty() && c.selfFail && (c.atPlanStep.failS & bit(w.activeBefore)) && p.outcome != 2) V.add(9, p.postEv, F("plan %s is non-empty and the active state s%d reported failure, but planFailed was not delivered in this cycle", seqStr(p.pre).c_str(), sidOf(w.activeBefore)));
	}
}

// ------------------------------------------------------------------------------------------------
// C10: plan capacity exact, order preserving, never leaks (model = std::vector)
struct ModelAt { bool known = false; std::vector<TaskV> v; };   // the modelled plan when a cycle's plan step ran
static void c10impl(const Trace& t, const Analysis& A, Verdict& V, std::vector<ModelAt>* atStep) {
	const Info& f = t.info;
	if (!f.hasPlans) return;
	if (atStep) atStep->assign(A.wins.size(), ModelAt{});
	struct M { std::vector<TaskV> v; bool known = false, dead = false, outcomePending = false, havePending = false; TaskV pend; size_t removeBase = 0; } ms[3];
	auto removeMask = [](std::vector<TaskV>& v, uint8_t mask, size_t base = ~size_t(0)) { std::vector<TaskV> n; for (size_t k = 0; k < v.size(); ++k) if (k >= base || !((mask >> (k % 8)) & 1)) n.push_back(v[k]); v.swap(n); };
	for (uint32_t i = 0; i < t.n; ++i) {
		const Ev& e = t.ev[i];
		M& m = ms[e.inst % 3];
		if (e.kind == EV_NOTE) {
			if (e.method == NOTE_CONSTRUCT) { m = M{}; continue; }
			if (e.method == NOTE_COPY) { ms[2] = ms[e.a % 3]; continue; }
			if (e.method == NOTE_BUDGET) { m.dead = true; continue; }
			if (e.method == NOTE_DESTROY) { m.known = false; continue; }
		}
		if (m.dead) continue;
		const Win* w = A.ann[i].win >= 0 ? &A.wins[A.ann[i].win] : nullptr;
		if (e.kind == EV_BEGIN && e.method == OP_PLAN_APPEND) { m.pend = TaskV{e.a, e.b, uint8_t(e.c != 0), e.c, 1, 1}; m.havePending = true; }
		if (e.kind == EV_NOTE && e.method == NOTE_ITER_REMOVE) { if (e.a < m.v.size()) m.v.erase(m.v.begin() + e.a); else if (m.known) V.add(10, i, "iterator visited and removed a task the plan does not hold"); }
		if (e.kind == EV_ACT) {
			if (e.method == ACT_PLAN_APPEND) { m.pend = TaskV{e.a, e.b, uint8_t(e.c != 0), e.c, 1, 1}; m.havePending = true; }
			if (e.method == ACT_PLAN_CLEAR) m.v.clear();
			if (e.method == ACT_PLAN_REMOVE) removeMask(m.v, e.a);
		}
		if (e.kind == EV_NOTE && e.method == NOTE_APPEND_RESULT && m.havePending) {
			m.havePending = false;
			if (m.known) {
				const bool want = m.v.size() < f.cap;
				if (bool(e.a) != want) V.add(10, i, F("append returned %s with %zu of %u tasks present", e.a ? "true" : "false", m.v.size(), f.cap));
			}
			if (e.a) m.v.push_back(m.pend);
		}
		if (e.kind == EV_NOTE && e.method == NOTE_HELD && !(e.a && e.b)) V.add(10, i, F("a %s obtained before the operation does not show the plan as it is after the operation (a plan handle is a view of the machine's plan)", !e.a ? "read-only plan (CPlan)" : "Plan"));
		if (e.kind == EV_NOTE && e.method == NOTE_ITER && !e.a) V.add(10, i, F("iterating while removing did not visit exactly the tasks of the plan in order (visited %u)", e.b));
		if (e.kind == EV_END && w && w->type == WT_OP) {
			if (e.method == OP_PLAN_CLEAR) m.v.clear();
			/* OP_PLAN_REMOVE: every removal was applied when it happened (NOTE_ITER_REMOVE) */
		}
		if (e.kind == EV_CB && isOutcome(e.method)) m.outcomePending = true;
		if (!hasSnap(e)) continue;
		const std::vector<TaskV> obs = snap(t, e);
		// behaviour owned by other properties: re-synchronise the model from the observation
		bool resync = !m.known;
		if (w && w->type == WT_OP && (w->code == OP_UPDATE || w->code == OP_REACT) && w->plan.present && w->plan.outcome == 3 && i == w->plan.postEv) resync = true;   // hidden outcome cleared the plan
		if (w && w->type == WT_OP && (w->code == OP_UPDATE || w->code == OP_REACT) && w->plan.present && !w->plan.outcome && i == w->plan.postEv) {
			std::vector<TaskV> rem;   // consumption by firing: what is left must be an in-order remainder
			if (m.known && !subseqDiff(m.v, obs, rem)) V.add(10, i, F("after the plan step the plan %s is not an in-order remainder of %s", seqStr(obs).c_str(), seqStr(m.v).c_str()));
			resync = true;
			if (atStep && m.known) {
				// model export (C08): keep the edit-history plan and take out exactly the tasks that fired; fall back to the observation only if that is impossible
				resync = false;
				for (const TaskV& q : w->plan.fired) {
					size_t k = 0;
					while (k < m.v.size() && !(m.v[k] == q)) ++k;
					if (k == m.v.size()) { resync = true; break; }
					m.v.erase(m.v.begin() + long(k));
				}
			}
		}
		if (m.outcomePending && !(e.kind == EV_CB && isOutcome(e.method)) && !(e.kind == EV_NOTE && isOutcome(e.d))) { m.outcomePending = false; m.v.clear(); }   // plan-outcome clearing
		if (w && (w->type == WT_TEARDOWN || w->type == WT_CONSTRUCT || (w->type == WT_OP && (w->code == OP_LOAD || w->code == OP_EXIT || w->code == OP_ENTER || w->code == OP_RECONSTRUCT)))) resync = true;   // (de)activation / load
		if (resync) { m.v = obs; m.known = true; }
		if (atStep && w && w->type == WT_OP && (w->code == OP_UPDATE || w->code == OP_REACT) && w->plan.present && i == w->plan.preEv) { ModelAt& a = (*atStep)[A.ann[i].win]; a.known = m.known; a.v = m.v; }
		if (!sameSeq(obs, m.v)) { V.add(10, i, F("plan iterates as %s, model (appended and not yet removed, in order) is %s", seqStr(obs).c_str(), seqStr(m.v).c_str())); if (!atStep) m.v = obs; }
		if (obs.size() > f.cap) V.add(10, i, F("plan holds %zu tasks, capacity is %u", obs.size(), f.cap));
		if (bool(e.planFlags & PF_BOOL) != !obs.empty()) V.add(10, i, "plan emptiness test disagrees with iteration");
		if (!(e.planFlags & PF_FIRSTLAST_OK)) V.add(10, i, "first()/last() disagree with the iterated sequence");
		if (!(e.planFlags & PF_VIEWS_EQUAL)) V.add(10, i, "Plan / const Plan / CPlan iterate different sequences");
		if (e.planFlags & PF_TRUNC) V.add(10, i, "plan iteration did not terminate within capacity+1 steps");
	}
}

void c10(const Trace& t, const Analysis& A, Verdict& V) { c10impl(t, A, V, nullptr); }
static std::vector<std::pair<bool, std::vector<TaskV>>> planAtSteps(const Trace& t, const Analysis& A) {
	std::vector<ModelAt> at; Verdict scratch;
	c10impl(t, A, scratch, &at);
	std::vector<std::pair<bool, std::vector<TaskV>>> out;
	for (ModelAt& a : at) out.emplace_back(a.known, std::move(a.v));
	return out;
}

// ------------------------------------------------------------------------------------------------
// C12: serialization round trip and canonicity
void c12(const Trace& t, const Analysis& A, Verdict& V) {
	const Info& f = t.info;
	if (!f.hasSerial) return;
	std::map<uint16_t, uint8_t> serToAct; std::map<uint8_t, uint16_t> actToSer;
	for (uint32_t i = 0; i < t.n; ++i) {
		const Ev& e = t.ev[i];
		if ((e.kind != EV_BEGIN && e.kind != EV_END && e.kind != EV_CB) || !e.hasSerial || A.ann[i].dead) continue;
		if (e.hasSerial == 3) { V.add(12, i, "save() wrote outside the buffer's declared bit capacity"); continue; }
		auto a = serToAct.find(e.serial);
		if (a != serToAct.end() && a->second != e.mAct) V.add(12, i, F("activities %d and %d serialize to the same bytes %04x", sidOf(a->second), sidOf(e.mAct), e.serial));
		auto b = actToSer.find(e.mAct);
		if (b != actToSer.end() && b->second != e.serial) V.add(12, i, F("activity %d serialized to %04x and to %04x", sidOf(e.mAct), b->second, e.serial));
		serToAct[e.serial] = e.mAct; actToSer[e.mAct] = e.serial;
	}
	for (const Win& w : A.wins) {
		if (!w.complete || w.aborted || A.ann[w.b].dead || w.type != WT_OP) continue;
		const Ev& b = t.ev[w.b]; const Ev& e = t.ev[w.e - 1];
		if (w.code == OP_SAVE) {
			for (uint32_t i = w.b + 1; i + 1 < w.e; ++i) {
				const Ev& x = t.ev[i];
				if (x.kind == EV_CB) V.add(12, i, "save() ran a callback");
				if (x.kind == EV_NOTE && x.method == NOTE_CANARY && !x.a) V.add(12, i, "save() wrote outside the serial buffer");
				if (x.kind == EV_NOTE && x.method == NOTE_BUFEQ) {
					// next event: NOTE_BUFACT
					const Ev& y = t.ev[i + 1];
					const bool sameAct = y.a == y.b;
					if (bool(x.a) != sameAct) V.add(12, i, F("buffers compare %s but the saved activities are %d and %d", x.a ? "equal" : "different", sidOf(y.a), sidOf(y.b)));
					if (bool(x.b) == bool(x.a)) V.add(12, i, "operator!= is not the negation of operator==");
					if (bool(x.c) != bool(x.a)) V.add(12, i, "operator== disagrees with the buffer bytes");
				}
			}
			if (b.mAct != e.mAct || b.mActMask != e.mActMask || b.mManual != e.mManual) V.add(12, w.e - 1, "save() changed the machine's activity");
			if (f.hasHistory && !(b.prev == e.prev)) V.add(12, w.e - 1, "save() changed previousTransition()");
			if (f.hasPlans) { if (!sameSeq(snap(t, b), snap(t, e))) V.add(12, w.e - 1, "save() changed the plan"); }
		}
		if (w.code == OP_LOAD) {
			const uint8_t saved = b.b, before = b.mAct;
			if (e.mAct != saved) V.add(12, w.e - 1, F("after load() the loader is in %d, the saver was in %d", sidOf(e.mAct), sidOf(saved)));
			std::vector<std::pair<uint8_t, uint8_t>> got, want;
			for (uint32_t i = w.b + 1; i + 1 < w.e; ++i) {
				const Ev& x = t.ev[i];
				if (x.inst != w.inst || x.kind != EV_CB) continue;
				if (!isLife(x.method)) { V.add(12, i, F("load() ran s%d.%s", sidOf(x.state), methName(x.method))); continue; }
				if (x.who == WHO_SELF) got.push_back({x.method, x.state});
			}
			if (!f.bare) {
				if (before == NOID && saved != NOID) { if (f.head) want.push_back({M_ENTER, NOID}); want.push_back({M_ENTER, saved}); }
				else if (before != NOID && saved == NOID) { want.push_back({M_EXIT, before}); if (f.head) want.push_back({M_EXIT, NOID}); }
				else if (before != NOID && before != saved) { want.push_back({M_EXIT, before}); want.push_back({M_ENTER, saved}); }
				else if (before != NOID) want.push_back({M_REENTER, saved});
				if (got != want) V.add(12, w.e - 1, F("load() from activity %d into activity %d ran %zu lifecycle callbacks, expected %zu (exactly the needed exit/enter, reenter, final exit or initial enter)", sidOf(saved), sidOf(before), got.size(), want.size()));
			}
		}
	}
}

// ------------------------------------------------------------------------------------------------
// C16: logging is faithful (within a logging build)
void c16(const Trace& t, const Analysis& A, Verdict& V) {
	const Info& f = t.info;
	if (!f.hasLog) return;
	bool attached[3] = {false, false, false};
	auto nextIs = [&](uint32_t i, uint8_t inst, uint8_t kind, uint8_t a, uint8_t b, bool chkB) {
		if (i + 1 >= t.n) return false;
		const Ev& x = t.ev[i + 1];
		return x.kind == EV_LOG && x.inst == inst && x.method == kind && x.a == a && (!chkB || x.b == b);
	};
	for (uint32_t i = 0; i < t.n; ++i) {
		const Ev& e = t.ev[i];
		const uint8_t in = e.inst % 3;
		if (e.kind == EV_NOTE && e.method == NOTE_CONSTRUCT) { attached[in] = e.b != 0; continue; }
		if (e.kind == EV_NOTE && e.method == NOTE_COPY) { attached[2] = attached[e.a % 3]; continue; }
		if (A.ann[i].dead) continue;
		if (e.kind == EV_END && e.method == OP_LOGGER) { /* state switches at the BEGIN..END bracket */ }
		if (e.kind == EV_BEGIN && e.method == OP_LOGGER) { attached[in] = e.a != 0; continue; }
		if (e.kind == EV_ACT && e.method == ACT_LOGGER) { attached[in] = e.a != 0; continue; }   // attached / detached from inside a callback: effective from the next delivery or action on
		if (e.kind == EV_LOG) {
			if (!attached[in]) { V.add(16, i, "record emitted although no logger is attached"); continue; }
			const Ev* prev = i > 0 ? &t.ev[i - 1] : nullptr;
			const Win* w = A.ann[i].win >= 0 ? &A.wins[A.ann[i].win] : nullptr;
			if (e.method == LOG_TRANSITION) {
				bool ok = prev && ((prev->kind == EV_ACT && prev->method == ACT_REQUEST && prev->state == e.a && prev->a == e.b) ||
					(prev->kind == EV_BEGIN && (prev->method == OP_CHANGE || prev->method == OP_IMMEDIATE) && e.a == NOID && prev->a == e.b));
				if (!ok) {
					// only plan-fired requests may produce a record without a user action: in the plan step, matching F
					bool fired = false;
					if (w && w->plan.present && !w->plan.outcome && i >= w->phaseEnd && (w->rounds.empty() || i < w->rounds[0].first)) {
						// position among consecutive un-actioned transition records
						size_t pos = 0; for (uint32_t k = i; k-- > w->phaseEnd;) { if (t.ev[k].kind == EV_LOG && t.ev[k].method == LOG_TRANSITION && t.ev[k].inst == e.inst) ++pos; else if (t.ev[k].kind == EV_LOG) continue; else break; }
						if (pos < w->plan.fired.size() && w->plan.fired[pos].origin == e.a && w->plan.fired[pos].dest == e.b) fired = true;
					}
					if (!fired) V.add(16, i, F("transition record %d>%d does not correspond to a changeTo/changeWith call or a fired task at this moment", sidOf(e.a), sidOf(e.b)));
				}
			} else if (e.method == LOG_CANCEL) {
				if (!(prev && prev->kind == EV_ACT && prev->method == ACT_CANCEL && prev->state == e.a)) V.add(16, i, "cancellation record without a cancelPendingTransition() call at this moment");
			} else if (e.method == LOG_TASK) {
				bool ok = prev && ((prev->kind == EV_ACT && (prev->method == ACT_SUCCEED_SELF || prev->method == ACT_SUCCEED_ID) && e.b == 0 && prev->a == e.a) ||
					(prev->kind == EV_ACT && (prev->method == ACT_FAIL_SELF || prev->method == ACT_FAIL_ID) && e.b == 1 && prev->a == e.a) ||
					(prev->kind == EV_BEGIN && prev->method == OP_SUCCEED && e.b == 0 && prev->a == e.a) || (prev->kind == EV_BEGIN && prev->method == OP_FAIL && e.b == 1 && prev->a == e.a));
				if (!ok) V.add(16, i, "task-status record without a succeed()/fail() call at this moment");
			} else if (e.method == LOG_METHOD) {
				// must be immediately followed by a delivery to that state of that method, unless the state defines no callback
				const bool bare = !defines(f, e.a, e.b);   // the state class does not define this callback (a headless root defines none)
				const bool next = i + 1 < t.n && t.ev[i + 1].kind == EV_CB && t.ev[i + 1].inst == e.inst && t.ev[i + 1].state == e.a && t.ev[i + 1].method == e.b;
				if (!next) {
					const bool reactFamily = e.b == M_PRE_REACT || e.b == M_REACT || e.b == M_POST_REACT || e.b == M_QUERY;
					if (!(bare && (f.verbose || reactFamily))) V.add(16, i, F("method record s%d.%s is not followed by that delivery", sidOf(e.a), methName(e.b)));
				}
			}
			continue;
		}
		if (!attached[in]) continue;
		// verbose logging records deliveries to states that define no callback -- also the plan outcome delivered to the (empty) root of a headless
		// machine. Such an outcome is invisible to callbacks; the analysis infers it when the plan empties without its last task's request being evaluated.
		if (f.verbose && !f.head && e.kind == EV_BEGIN && (e.method == OP_UPDATE || e.method == OP_REACT) && A.ann[i].win >= 0) {
			const Win& w = A.wins[A.ann[i].win];
			if (w.complete && !w.aborted && w.plan.present && w.plan.outcome == 3) {
				bool toggled = false, found = false;
				for (uint32_t k = w.b; k < w.e; ++k) {
					const Ev& x = t.ev[k];
					if (x.inst != e.inst) continue;
					if (x.kind == EV_ACT && x.method == ACT_LOGGER) toggled = true;
					if (k >= w.phaseEnd && k <= w.plan.postEv && x.kind == EV_LOG && x.method == LOG_METHOD && x.a == NOID && (x.b == M_PLAN_FAILED || x.b == M_PLAN_SUCCEEDED)) found = true;
				}
				if (!toggled && !found) V.add(16, w.plan.postEv, "verbose logging: the plan outcome delivered to the root of this headless machine (the plan was emptied without its last task firing) produced no method record");
			}
		}
		// every action is followed immediately by its record
		if (e.kind == EV_ACT) {
			if (e.method == ACT_REQUEST && !nextIs(i, e.inst, LOG_TRANSITION, e.state, e.a, true)) V.add(16, i, F("changeTo/changeWith by s%d to s%u produced no transition record with the caller as origin", sidOf(e.state), e.a));
			if (e.method == ACT_CANCEL && !nextIs(i, e.inst, LOG_CANCEL, e.state, 0, false)) V.add(16, i, "guard cancellation produced no cancellation record");
			if ((e.method == ACT_SUCCEED_SELF || e.method == ACT_SUCCEED_ID) && !nextIs(i, e.inst, LOG_TASK, e.a, 0, true)) V.add(16, i, "succeed() produced no task-status record");
			if ((e.method == ACT_FAIL_SELF || e.method == ACT_FAIL_ID) && !nextIs(i, e.inst, LOG_TASK, e.a, 1, true)) V.add(16, i, "fail() produced no task-status record");
		}
		if (e.kind == EV_BEGIN) {
			if ((e.method == OP_CHANGE || e.method == OP_IMMEDIATE) && !nextIs(i, e.inst, LOG_TRANSITION, NOID, e.a, true)) V.add(16, i, "external changeTo/changeWith produced no transition record");
			if (e.method == OP_SUCCEED && !nextIs(i, e.inst, LOG_TASK, e.a, 0, true)) V.add(16, i, "external succeed() produced no task-status record");
			if (e.method == OP_FAIL && !nextIs(i, e.inst, LOG_TASK, e.a, 1, true)) V.add(16, i, "external fail() produced no task-status record");
		}
		// every delivery to a state that defines the callback is preceded by exactly one method record
		if (e.kind == EV_CB && defines(f, e.state, e.method)) {
			// is this the first callback of a delivery block?
			const int k = isOutcome(e.method) ? 0 : injOf(f, e.state);
			// count preceding consecutive CBs of the same (state, method) back to the nearest method record / other event
			uint32_t cnt = 0; uint32_t p = i; bool sawRecord = false;
			while (p-- > 0) {
				const Ev& x = t.ev[p];
				if (x.inst != e.inst) break;
				if (x.kind == EV_CB && x.state == e.state && x.method == e.method) { ++cnt; continue; }
				if (x.kind == EV_ACT || (x.kind == EV_NOTE && (x.method == NOTE_AFTER || x.method == NOTE_APPEND_RESULT || x.method == NOTE_EXCLUDED_ACTIVATION_VETO)) || (x.kind == EV_LOG && x.method != LOG_METHOD)) continue;
				if (x.kind == EV_LOG && x.method == LOG_METHOD && x.a == e.state && x.b == e.method) sawRecord = true;
				break;
			}
			if (cnt % uint32_t(k + 1) == 0 && cnt == 0 && !sawRecord) V.add(16, i, F("delivery of s%d.%s has no method record before its user code", sidOf(e.state), methName(e.method)));
			if (cnt >= uint32_t(k + 1) && cnt % uint32_t(k + 1) == 0 && !sawRecord) { /* a second adjacent delivery must have its own record: handled because the scan stops at the record */ }
		}
	}
}

// ------------------------------------------------------------------------------------------------
// C17: copies are equivalent (fill independence is decided by the driver comparing digests)
// everything a transition shows, also when it is empty (an empty request / history entry can still expose a payload through payload())
static bool sameRaw(const TrV& a, const TrV& b) {
	return a.valid == b.valid && a.hasPay == b.hasPay && (!a.hasPay || (a.seed == b.seed && a.exact == b.exact)) && (!a.valid || (a.origin == b.origin && a.dest == b.dest));
}
static bool sameObs(const Trace& t, const Ev& a, const Ev& b, bool withSerial, std::string& why) {
	if (a.mAct != b.mAct || a.mActMask != b.mActMask) { why = F("active state %d vs %d", sidOf(a.mAct), sidOf(b.mAct)); return false; }
	if (a.mManual != b.mManual) { why = "isActive()"; return false; }
	if (!(a.prev == b.prev)) { why = F("previousTransition() %s vs %s", trStr(a.prev).c_str(), trStr(b.prev).c_str()); return false; }
	if (!sameRaw(a.prev, b.prev)) { why = F("previousTransition().payload(): the (empty) history entry exposes %s in one and %s in the other", a.prev.hasPay ? F("payload %u", a.prev.seed).c_str() : "no payload", b.prev.hasPay ? F("payload %u", b.prev.seed).c_str() : "no payload"); return false; }
	if (!sameSeq(snap(t, a), snap(t, b))) { why = F("plan %s vs %s", seqStr(snap(t, a)).c_str(), seqStr(snap(t, b)).c_str()); return false; }
	if (withSerial && (a.hasSerial != b.hasSerial || a.serial != b.serial)) { why = "serialized form"; return false; }
	if (a.hasLocal && b.hasLocal && a.localSum != b.localSum) { why = "data members of the state objects (read through access<T>())"; return false; }
	return true;
}
void c17(const Trace& t, const Analysis& A, Verdict& V) {
	(void) A;
	// copy observers
	for (uint32_t i = 0; i + 3 < t.n; ++i) {
		const Ev& n = t.ev[i];
		if (n.kind != EV_NOTE || n.method != NOTE_COPY) continue;
		// layout: BEGIN(src) NOTE_COPY END(src) BEGIN(2) END(2)
		const Ev* endSrc = nullptr; const Ev* endCopy = nullptr;
		for (uint32_t k = i + 1; k < t.n && k < i + 6; ++k) {
			if (t.ev[k].kind == EV_END && t.ev[k].method == OP_COPY && t.ev[k].inst != 2 && !endSrc) endSrc = &t.ev[k];
			if (t.ev[k].kind == EV_END && t.ev[k].method == OP_COPY && t.ev[k].inst == 2) endCopy = &t.ev[k];
		}
		if (!endSrc || !endCopy) continue;
		std::string why;
		if (!sameObs(t, *endSrc, *endCopy, true, why)) V.add(17, i, "copy differs from the original at the moment of copying: " + why);
		// the original itself is unchanged by being copied
		if (i > 0 && t.ev[i - 1].kind == EV_BEGIN && !sameObs(t, t.ev[i - 1], *endSrc, true, why)) V.add(17, i, "copying changed the original: " + why);
	}
	// fork-and-compare
	int32_t b0 = -1, e0 = -1, b1 = -1, e1 = -1;
	for (uint32_t i = 0; i < t.n; ++i) {
		const Ev& e = t.ev[i];
		if (e.kind != EV_NOTE) continue;
		if (e.method == NOTE_FORK_BEGIN) { if (e.a == 0) b0 = int32_t(i); else b1 = int32_t(i); }
		if (e.method == NOTE_FORK_END) { if (e.a == 0) e0 = int32_t(i); else e1 = int32_t(i); }
	}
	if (b0 >= 0 && e0 > b0 && b1 > e0 && e1 > b1) {
		// independence: the original, observed between the phases, equals its observation at copy time
		const Ev* atCopy = nullptr;
		for (int32_t k = b0; k >= 0; --k) if (t.ev[k].kind == EV_END && t.ev[k].method == OP_COPY && t.ev[k].inst == 0) { atCopy = &t.ev[k]; break; }
		for (int32_t k = e0; k < b1; ++k) if (t.ev[k].kind == EV_END && t.ev[k].method == OP_OBSERVE && atCopy) { std::string why; if (!sameObs(t, *atCopy, t.ev[k], true, why)) V.add(17, uint32_t(k), "driving the copy changed the original: " + why); }
		int32_t i = b0 + 1, j = b1 + 1;
		while (i < e0 && j < e1) {
			const Ev& x = t.ev[i]; const Ev& y = t.ev[j];
			std::string why;
			bool same = x.kind == y.kind && x.state == y.state && x.method == y.method && x.who == y.who && x.ctl == y.ctl && x.a == y.a && x.b == y.b && x.c == y.c && x.d == y.d;
			if (!same) why = "different event";
			if (same && x.kind == EV_CB) {
				if (x.sid != y.sid || x.cAct != y.cAct) { same = false; why = "control view"; }
				else if (!(x.req == y.req)) { same = false; why = F("control.request() %s vs %s", trStr(x.req).c_str(), trStr(y.req).c_str()); }
				else if (!sameRaw(x.req, y.req)) { same = false; why = "control.request().payload() of the (empty) request differs between copy and original"; }
				else if (!(x.pend == y.pend) || !(x.cur == y.cur)) { same = false; why = "pending/current transition"; }
				else if (x.ctxOk != y.ctxOk || x.evtOk != y.evtOk || x.thisOk != y.thisOk) { same = false; why = "context/event/this identity"; }
				else if (x.local != y.local) { same = false; why = F("the state object's own data: its callback counter reads %u in the copy and %u in the original", x.local, y.local); }
			}
			if (same && hasSnap(x)) { if (!sameObs(t, x, y, x.kind != EV_CB, why)) same = false; else if (x.planFlags != y.planFlags) { same = false; why = "plan flags"; } }
			if (same && x.kind == EV_NOTE && x.method == NOTE_AFTER && !(x.req == y.req)) { same = false; why = "request after callback"; }
			if (!same) { V.add(17, uint32_t(i), F("copy and original diverge on the same inputs (copy event %d vs original event %d): %s", i, j, why.c_str())); break; }
			++i; ++j;
		}
		if (V.v.empty() && ((i < e0) != (j < e1))) V.add(17, uint32_t(i < e0 ? i : j), "copy and original ran a different number of callbacks on the same inputs");
	}
}

// ------------------------------------------------------------------------------------------------
// C18 (in-trace part): allocation counter, alignment, bounded iteration, canaries
void c18(const Trace& t, const Analysis& A, Verdict& V) {
	(void) A;
	for (uint32_t i = 0; i < t.n; ++i) {
		const Ev& e = t.ev[i];
		if (e.kind == EV_NOTE && e.method == NOTE_ALLOC) V.add(18, i, F("%u heap allocation(s)/free(s) during an FFSM2 call", e.a));
		if (e.kind == EV_NOTE && e.method == NOTE_CANARY && !e.a) V.add(18, i, "write outside the serial buffer");
		if (hasSnap(e)) {
			if (e.planFlags & PF_TRUNC) V.add(18, i, "plan iteration ran past capacity+1 links");
			if (e.hasSerial == 3) V.add(18, i, "save() wrote outside its buffer / declared bits");
			if (e.prev.valid && e.prev.hasPay && !e.prev.aligned) V.add(18, i, "misaligned payload object (previousTransition)");
			for (uint32_t k = 0; k < e.planLen; ++k) if (t.pool[e.planOff + k].hasPay && !t.pool[e.planOff + k].aligned) { V.add(18, i, "misaligned payload object (plan task)"); break; }
		}
		if (e.kind == EV_CB) for (const TrV* x : {&e.req, &e.pend, &e.cur}) if (x->valid && x->hasPay && !x->aligned) { V.add(18, i, "misaligned payload object handed to a callback"); break; }
	}
}

// ------------------------------------------------------------------------------------------------
uint64_t classify(const Trace& t, const Analysis& A) {
	const Info& f = t.info;
	uint64_t c = 0;
	unsigned transitions = 0, enters = 0, appended = 0;
	bool everAppended[3] = {false, false, false};
	for (uint32_t i = 0; i < t.n; ++i) {
		const Ev& e = t.ev[i];
		if (e.kind == EV_CB) {
			if (e.who == WHO_SELF && e.state != NOID && (e.method == M_ENTER || e.method == M_REENTER)) { ++transitions; if (e.method == M_REENTER) c |= CL_REENTER; }
			if (e.who == WHO_SELF && e.state == NOID && e.method == M_ENTER) ++enters;
			if (e.mAct != NOID && e.mAct != 0) c |= CL_STATE0_INACTIVE_CB;
			if (e.req.valid) c |= CL_CB_WITH_REQ;
			if (injOf(f, e.state) >= 2) c |= CL_INJ2;
			if (e.method == M_PLAN_SUCCEEDED) c |= CL_OUTCOME_SUCC;
			if (e.method == M_PLAN_FAILED) c |= CL_OUTCOME_FAIL;
			if (e.method == M_QUERY) c |= CL_QUERY;
			if (isReactPhase(e.method)) c |= CL_REACT;
		}
		if (e.kind == EV_ACT) {
			if (e.method == ACT_CANCEL) c |= CL_GUARD_CANCEL;
			if (e.method == ACT_REQUEST && e.c && f.payAlign >= 4) c |= CL_ALIGN4;
			if (e.method >= ACT_PLAN_APPEND && e.method <= ACT_PLAN_REMOVE) c |= CL_PLAN_EDIT_IN_CB;
			if (e.method == ACT_LOGGER) c |= CL_LOGGER_TOGGLE;
		}
		if (e.kind == EV_LOG && e.method == LOG_CANCEL) c |= CL_CANCEL_LOG;
		if (e.kind == EV_BEGIN) {
			if (e.method == OP_LOAD) { c |= CL_LOAD; if (e.b != e.mAct) c |= CL_SAVE_LOAD_DIFF; }
			if (e.method == OP_REPLAY) { c |= CL_REPLAY; if (e.a == NOID) c |= CL_REPLAY_INVALID; }
			if (e.method == OP_COPY && e.inst != 2) { c |= CL_COPY; if (e.prev.valid || e.planLen) c |= CL_COPY_NONTRIV; }
			if (e.method == OP_LOGGER) c |= CL_LOGGER_TOGGLE;
			if (e.method == OP_RECONSTRUCT) c |= CL_REACTIVATION;
			if (e.method == OP_CHANGE && e.c && f.payAlign >= 4) c |= CL_ALIGN4;
		}
		if (e.kind == EV_NOTE) {
			if (e.method == NOTE_BUDGET) c |= CL_ABORTED;
			if (e.method == NOTE_FORK_BEGIN) c |= CL_FORK;
			if (e.method == NOTE_APPEND_RESULT) { if (e.a) { ++appended; everAppended[e.inst % 3] = true; } else c |= CL_PLAN_FULL; }
			if (e.method == NOTE_CONSTRUCT) everAppended[e.inst % 3] = false;
		}
		if (hasSnap(e) && e.planLen == f.cap && f.cap) c |= CL_PLAN_FULL;
	}
	if (transitions >= 2) c |= CL_TRANSITIONS2;
	if (enters >= 2 && f.manual) c |= CL_REACTIVATION;
	// window-level classes
	bool ever[3] = {false, false, false};
	for (const Win& w : A.wins) {
		if (!w.complete) continue;
		if (w.type == WT_CONSTRUCT) ever[w.inst % 3] = false;
		for (uint32_t i = w.b; i < w.e; ++i) if (t.ev[i].kind == EV_NOTE && t.ev[i].method == NOTE_APPEND_RESULT && t.ev[i].a) ever[w.inst % 3] = true;
		if (w.processing) {
			if (w.rounds.size() >= 2) c |= CL_ROUNDS2;
			bool passed = false;
			for (const Round& r : w.rounds) { if (r.cancelled && passed) { c |= CL_VETO_AFTER_PASS; if (f.scenario == SC_REPLICA) c |= CL_REPLICA_MULTIROUND; } if (!r.cancelled) passed = true; }
			if (w.rounds.size() == f.L && w.rounds.back().madeReq) c |= CL_LIMIT_LEFTOVER;
		}
		if (w.activation && w.rounds.size() >= 2) c |= CL_ACTIVATION_REDIRECT;
		if (w.type == WT_OP && (w.code == OP_UPDATE || w.code == OP_REACT)) {
			// requests before processing
			unsigned reqs = 0; bool withPay = false, without = false;
			if (t.ev[w.b].kind == EV_BEGIN && w.outAtStart.valid) {}
			for (uint32_t i = w.b; i < w.phaseEnd; ++i) {
				const Ev& e = t.ev[i];
				if (e.kind == EV_CB && e.req.valid && i == w.b + 1) { ++reqs; (e.req.hasPay ? withPay : without) = true; }
				if (e.kind == EV_ACT && e.method == ACT_REQUEST) { ++reqs; (e.c ? withPay : without) = true; }
				if (e.kind == EV_ACT && i + 4 < w.phaseEnd) c |= CL_PHASE_REQUEST;
			}
			if (reqs >= 2) c |= CL_REQ_OVERWRITE;
			if (withPay && without) c |= CL_PAYLOAD_MIX;
			if (w.plan.present) {
				if (!w.plan.fired.empty()) {
					c |= CL_PLAN_FIRE;
					for (const TaskV& q : w.plan.fired) if (q.hasPay) c |= CL_PLAN_FIRE_PAY;
					bool distinct = false; for (const TaskV& q : w.plan.pre) if (q.origin != w.plan.pre[0].origin) distinct = true;
					if (w.plan.pre.size() >= 2 && distinct) c |= CL_PLAN_MULTI;
				}
				// outstanding report and no task ever appended
				bool report = false;
				for (uint32_t i = w.b; i < w.phaseEnd; ++i) if (t.ev[i].kind == EV_ACT && t.ev[i].method >= ACT_SUCCEED_SELF && t.ev[i].method <= ACT_FAIL_ID) report = true;
				if (report && !ever[w.inst % 3]) c |= CL_REPORT_NO_PLAN;
			}
		}
		if ((w.type == WT_OP && w.code == OP_EXIT) || w.type == WT_TEARDOWN) {
			for (uint32_t i = w.b; i < w.e; ++i) if (t.ev[i].kind == EV_CB && t.ev[i].req.valid) c |= CL_EXIT_WITH_REQ;
		}
	}
	(void) appended;
	return c;
}

bool nontrivial(int prop, uint64_t c) {
	switch (prop) {
	case 1: return (c & CL_TRANSITIONS2) && (c & (CL_GUARD_CANCEL | CL_ROUNDS2 | CL_LOAD | CL_REPLAY | CL_REACTIVATION | CL_COPY));
	case 2: return (c & (CL_REQ_OVERWRITE | CL_ROUNDS2)) != 0;
	case 3: return (c & CL_VETO_AFTER_PASS) != 0 || ((c & CL_ROUNDS2) && (c & CL_GUARD_CANCEL));
	case 4: return (c & CL_LIMIT_LEFTOVER) != 0;
	case 5: return (c & CL_PHASE_REQUEST) != 0;
	case 6: return (c & CL_STATE0_INACTIVE_CB) && (c & CL_CB_WITH_REQ);
	case 7: return (c & (CL_PAYLOAD_MIX | CL_PLAN_FIRE_PAY)) != 0;
	case 8: return (c & CL_PLAN_MULTI) != 0;
	case 9: return (c & (CL_REPORT_NO_PLAN | CL_OUTCOME_SUCC | CL_OUTCOME_FAIL)) != 0;
	case 10: return (c & CL_PLAN_FULL) != 0;
	case 11: return (c & (CL_VETO_AFTER_PASS | CL_REENTER)) && (c & (CL_REPLAY | CL_TRANSITIONS2));
	case 12: return (c & CL_SAVE_LOAD_DIFF) != 0;
	case 14: return (c & (CL_OUTCOME_SUCC | CL_OUTCOME_FAIL | CL_INJ2)) != 0;
	case 15: return (c & CL_INJ2) != 0;
	case 16: return (c & CL_LOGGER_TOGGLE) && (c & (CL_PLAN_FIRE | CL_CANCEL_LOG));
	case 17: return (c & CL_COPY_NONTRIV) != 0 || (c & CL_CB_WITH_REQ && c & CL_COPY);
	case 18: return (c & (CL_PLAN_FULL | CL_ALIGN4)) != 0;
	case 19: return (c & CL_GUARD_CANCEL) != 0;
	default: return c != 0;
	}
}

const char* nontrivialRule(int prop) {
	switch (prop) {
	case 1: return ">= 2 applied transitions and at least one of {guard veto, >= 2 guard rounds, load, replay, re-activation, copy}";
	case 2: return ">= 2 requests before one processing point, or a processing step with >= 2 guard rounds";
	case 3: return "a guard round cancelled after an earlier round passed, or >= 2 rounds with a cancel";
	case 4: return "a processing step that reaches exactly L rounds with a request left over";
	case 5: return "a phase callback requested a transition or reported a task result before the cycle's last phase callback";
	case 6: return "a callback ran while state 0 was not active and a callback ran with an outstanding request";
	case 7: return "payload-free and payload-carrying requests overwrote each other before processing, or a plan task with payload fired";
	case 8: return "a cycle in which >= 1 task fires while >= 2 tasks with >= 2 distinct origins are planned";
	case 9: return "a cycle with a report and no task ever appended, or a cycle delivering planSucceeded / planFailed";
	case 10: return "the plan reached full capacity (append refused or plan length == capacity)";
	case 11: return "an authority step with a veto after a pass or a re-entry, together with replay or >= 2 transitions";
	case 12: return "a load where saver and loader activity differ";
	case 14: return "a plan outcome callback ran on the root head, or a delivery to a state with >= 2 injections";
	case 15: return "a delivery to a state with >= 2 injections";
	case 16: return "logger attached/detached mid-history and a plan-fired transition or a cancellation occurred";
	case 17: return "copy taken with non-empty history or plan, or with an outstanding request";
	case 18: return "plan at full capacity or a request with a payload of alignment >= 4";
	case 19: return "scenario with >= 1 guard veto";
	default: return "any class flag set";
	}
}

}  // namespace vf
