// Property predicates (C01..C17 over zoo traces). Written from the property statements.
#include "predicates.hpp"
#include <cstdarg>

namespace vf {

static std::string F(const char* fmt, ...) {
	char b[512];
	va_list ap; va_start(ap, fmt); vsnprintf(b, sizeof b, fmt, ap); va_end(ap);
	return b;
}
static int sidOf(uint8_t s) { return s == NOID ? -1 : int(s); }
static bool instDeadAt(const Analysis& A, uint32_t i) { return A.ann[i].dead != 0; }
static bool isBare(const Info& f, uint8_t s) { return s != NOID && s < MASK_BITS && ((f.bare >> s) & 1); }
static int injOf(const Info& f, uint8_t s) { return s == NOID ? f.headInj : (s < MASK_BITS ? f.inj[s] : 0); }
static bool sameSeq(const std::vector<TaskV>& a, const std::vector<TaskV>& b) {
	if (a.size() != b.size()) return false;
	for (size_t i = 0; i < a.size(); ++i) if (!(a[i] == b[i])) return false;
	return true;
}

// ------------------------------------------------------------------------------------------------
// C01: exactly one active state; enter/exit strictly paired
static void c01(const Trace& t, const Analysis& A, Verdict& V) {
	const Info& f = t.info;
	const bool relaxed = f.bare != 0;
	struct L { int st = 0; uint8_t cur = NOID, last = NOID; bool constructed = false, dead = false; int pendingInit = -1; } ls[3];
	auto expectActive = [&](const L& s, uint8_t state, uint8_t method, uint8_t mAct, bool& ok) {
		ok = true;
		if (isLife(method) && state != NOID) { ok = mAct == state; return; }
		if (method == M_ENTER && state == NOID) { ok = mAct != NOID && mAct < f.N; return; }
		if (method == M_EXIT && state == NOID) { ok = mAct == s.last || mAct == NOID; return; }
		ok = mAct == (s.st == 2 ? s.cur : NOID);
	};
	for (uint32_t i = 0; i < t.n; ++i) {
		const Ev& e = t.ev[i];
		L& s = ls[e.inst % 3];
		if (e.kind == EV_NOTE) {
			if (e.method == NOTE_CONSTRUCT) { s = L{}; s.constructed = true; continue; }
			if (e.method == NOTE_COPY) { ls[2] = ls[e.a % 3]; continue; }
			if (e.method == NOTE_BUDGET) { s.dead = true; continue; }
		}
		if (s.dead || !s.constructed) continue;
		if (hasSnap(e)) {
			const Mask expectMask = e.mAct == NOID ? Mask(0) : (e.mAct < MASK_BITS ? (Mask(1) << e.mAct) : Mask(0));
			if (e.mActMask != expectMask) V.add(1, i, F("isActive(id) disagrees with activeStateId(): active=%d mask=%llx:%016llx", sidOf(e.mAct), (unsigned long long) (e.mActMask >> 64), (unsigned long long) e.mActMask));
			if (!e.tmplOk) V.add(1, i, "isActive<T>() / stateId<T>() disagree with isActive(id) / the declaration order");
			if (e.mAct != NOID && e.mAct >= f.N) V.add(1, i, F("activeStateId()=%u out of range", e.mAct));
			if (f.manual && e.mManual != 2 && e.mManual != (e.mAct != NOID ? 1 : 0)) V.add(1, i, "manual isActive() disagrees with activeStateId()");
		}
		if (relaxed) continue;
		if (e.kind == EV_CB) {
			bool ok; expectActive(s, e.state, e.method, e.mAct, ok);
			if (!ok) V.add(1, i, F("callback s%d.%s observed activeStateId()=%d, lifecycle says %d (st=%d)", sidOf(e.state), methName(e.method), sidOf(e.mAct), sidOf(s.cur), s.st));
			if (e.who != WHO_SELF) continue;
			if (!isLife(e.method)) { if (s.st == 3 || s.st == 1) V.add(1, i, F("callback %s between exit and enter", methName(e.method))); continue; }
			if (e.state == NOID) {
				if (e.method == M_ENTER) { if (s.st != 0) V.add(1, i, "root enter() while already active"); s.st = 1; s.pendingInit = e.mAct; }
				else if (e.method == M_EXIT) { if (s.st != 3) V.add(1, i, "root exit() without a preceding state exit()"); s.st = 0; s.cur = NOID; }
				else V.add(1, i, "root reenter()");
			} else if (e.method == M_ENTER) {
				const bool okSt = f.head ? (s.st == 1 || s.st == 3) : (s.st == 0 || s.st == 3);
				if (!okSt) V.add(1, i, F("enter(s%d) while st=%d cur=%d (previous state not exited / root not entered)", e.state, s.st, sidOf(s.cur)));
				if (s.pendingInit >= 0 && s.pendingInit != e.state) V.add(1, i, F("root enter() saw active=%d but s%d was entered", s.pendingInit, e.state));
				s.pendingInit = -1; s.st = 2; s.cur = e.state;
			} else if (e.method == M_REENTER) {
				if (s.st != 2 || s.cur != e.state) V.add(1, i, F("reenter(s%d) but active is %d (st=%d)", e.state, sidOf(s.cur), s.st));
			} else {
				if (s.st != 2 || s.cur != e.state) V.add(1, i, F("exit(s%d) but active is %d (st=%d)", e.state, sidOf(s.cur), s.st));
				s.st = 3; s.last = e.state; s.cur = NOID;
			}
		} else if (e.kind == EV_NOTE && e.method == NOTE_AFTER) {
			// same rule as the callback the note belongs to; for exit(s) the state is still reported
			L tmp = s; if (e.d == M_EXIT && e.state != NOID) { /* after exit(s) self: s.st==3 */ }
			bool ok; expectActive(tmp, e.state, e.d, e.mAct, ok);
			if (!ok) V.add(1, i, F("after s%d.%s: activeStateId()=%d", sidOf(e.state), methName(e.d), sidOf(e.mAct)));
		} else if (e.kind == EV_BEGIN || e.kind == EV_END) {
			if (s.st == 3 && !f.head && e.mAct == NOID) { s.st = 0; }
			if (s.st == 1 || s.st == 3) V.add(1, i, F("API call boundary with st=%d (enter/exit left unpaired)", s.st));
			const uint8_t want = s.st == 2 ? s.cur : NOID;
			if (e.mAct != want) V.add(1, i, F("activeStateId()=%d but the last un-exited enter() was s%d", sidOf(e.mAct), sidOf(want)));
		}
	}
	if (!relaxed) for (int k = 0; k < 3; ++k) if (ls[k].constructed && !ls[k].dead) {
		if (ls[k].st == 3 && !f.head) ls[k].st = 0;
		if (ls[k].st != 0) V.add(1, t.n ? t.n - 1 : 0, F("instance %d ended its life with st=%d cur=%d: an enter() was left unpaired", k, ls[k].st, sidOf(ls[k].cur)));
	}
}

// helpers over windows ------------------------------------------------------------------------------
struct LifeSeq { std::vector<std::pair<uint8_t, uint8_t>> v; std::vector<uint32_t> at; };
static LifeSeq lifeSelf(const Trace& t, const Win& w) {
	LifeSeq r;
	for (uint32_t i = w.b; i < w.e; ++i) { const Ev& e = t.ev[i]; if (e.inst == w.inst && e.kind == EV_CB && e.who == WHO_SELF && isLife(e.method) && e.state != NOID) { r.v.push_back({e.method, e.state}); r.at.push_back(i); } }
	return r;
}
static bool winUsable(const Analysis& A, const Win& w) { return w.complete && !w.aborted && !A.ann[w.b].dead; }

// ------------------------------------------------------------------------------------------------
// C02: last surviving request wins; applied only when processed
static void c02(const Trace& t, const Analysis& A, Verdict& V) {
	const Info& f = t.info;
	for (const Win& w : A.wins) {
		if (!winUsable(A, w) || w.type != WT_OP) continue;
		const Ev& b = t.ev[w.b]; const Ev& e = t.ev[w.e - 1];
		if (w.code == OP_CHANGE) {
			// (a) no effect at request time
			for (uint32_t i = w.b + 1; i + 1 < w.e; ++i) if (t.ev[i].kind == EV_CB) { V.add(2, i, "a callback ran inside changeTo()/changeWith()"); break; }
			if (b.mAct != e.mAct) V.add(2, w.e - 1, F("changeTo() changed the active state %d -> %d at request time", sidOf(b.mAct), sidOf(e.mAct)));
			if (f.hasHistory && !(b.prev == e.prev)) V.add(2, w.e - 1, "changeTo() changed previousTransition()");
			if (f.hasPlans && !sameSeq(snap(t, b), snap(t, e))) V.add(2, w.e - 1, "changeTo() changed the plan");
			continue;
		}
		if (!w.processing) continue;
		if (f.bare) continue;
		// (a') a request made inside a callback does not change the active state at that moment
		for (uint32_t i = w.b + 1; i < w.e; ++i) {
			const Ev& x = t.ev[i];
			if (x.kind == EV_NOTE && x.method == NOTE_AFTER && !isLife(x.d)) {
				// find the callback this belongs to
				for (uint32_t k = i; k-- > w.b;) if (t.ev[k].kind == EV_CB) { if (t.ev[k].mAct != x.mAct) V.add(2, i, F("active state changed %d -> %d at the moment a callback acted", sidOf(t.ev[k].mAct), sidOf(x.mAct))); break; }
			}
		}
		// (b) outcome of processing
		const bool hasSurv = w.survivor >= 0;
		const uint8_t want = hasSurv ? w.rounds[w.survivor].pend.dest : w.activeBefore;
		if (e.mAct != want) V.add(2, w.e - 1, F("after processing active=%d, expected %d (%s)", sidOf(e.mAct), sidOf(want), hasSurv ? "destination of the last request that passed its guards" : "unchanged: no request survived"));
		const LifeSeq ls = lifeSelf(t, w);
		const uint32_t lastGuard = w.rounds.empty() ? w.b : w.rounds.back().last;
		if (hasSurv && want != w.activeBefore) {
			if (!(ls.v.size() == 2 && ls.v[0] == std::make_pair(uint8_t(M_EXIT), w.activeBefore) && ls.v[1] == std::make_pair(uint8_t(M_ENTER), want)))
				V.add(2, w.e - 1, F("expected exactly exit(s%d),enter(s%d); saw %zu lifecycle callbacks", sidOf(w.activeBefore), sidOf(want), ls.v.size()));
		} else if (hasSurv) {
			if (!(ls.v.size() == 1 && ls.v[0] == std::make_pair(uint8_t(M_REENTER), want)))
				V.add(2, w.e - 1, F("expected exactly reenter(s%d); saw %zu lifecycle callbacks", sidOf(want), ls.v.size()));
		} else if (!ls.v.empty()) V.add(2, ls.at[0], "no request survived but enter/exit/reenter ran");
		for (uint32_t at : ls.at) if (at < lastGuard) V.add(2, at, "lifecycle callback before guard processing finished");
		// (b') the most recent request that no guard cancelled is the one that takes effect: it may not be dropped on the way
		if (w.lostRequest.valid) V.add(2, w.e - 1, F("the most recent request, %s, was not cancelled by any guard, yet it was never processed (the call ended in s%d)", trStr(w.lostRequest).c_str(), sidOf(e.mAct)));
		// (c) the request evaluated first is the last one made before processing started
		if (w.outAtStart.valid) {
			if (w.rounds.empty()) V.add(2, w.e - 1, F("outstanding request %s was never evaluated", trStr(w.outAtStart).c_str()));
			else if (!(w.rounds[0].pend == w.outAtStart)) V.add(2, w.rounds[0].first, F("guards evaluated %s but the last request made was %s", trStr(w.rounds[0].pend).c_str(), trStr(w.outAtStart).c_str()));
		} else if (w.outKnownAtStart && !w.rounds.empty()) V.add(2, w.rounds[0].first, F("guards evaluated %s although no request was outstanding", trStr(w.rounds[0].pend).c_str()));
	}
}

// ------------------------------------------------------------------------------------------------
// C03: guards can veto
static void c03(const Trace& t, const Analysis& A, Verdict& V) {
	const Info& f = t.info;
	for (const Win& w : A.wins) {
		if (!winUsable(A, w)) continue;
		const bool guardFree = w.type == WT_OP && (w.code == OP_LOAD || w.code == OP_REPLAY || w.code == OP_EXIT || w.code == OP_SAVE || w.code == OP_CHANGE || w.code == OP_QUERY);
		if (guardFree || w.type == WT_TEARDOWN) {
			for (uint32_t i = w.b; i < w.e; ++i) if (t.ev[i].inst == w.inst && t.ev[i].kind == EV_CB && isGuard(t.ev[i].method)) { V.add(3, i, F("guard consulted during %s", opName(w.code))); break; }
			continue;
		}
		if (w.activation && !f.bare) {
			// activation: the initial state's entry guards are evaluated first (no pending transition); every redirect requested by a guard is
			// then evaluated by the entry guards of its destination; a cancelled redirect is not entered: the machine falls back to the last
			// redirect that passed, or to the initial state
			for (size_t k = 1; k < w.rounds.size(); ++k) {
				const Round& r = w.rounds[k]; const Round& p = w.rounds[k - 1];
				if (r.hasExit) V.add(3, r.first, "exit guard consulted during activation");
				if (!p.madeReq) V.add(3, r.first, "a further entry-guard round ran during activation although the previous round made no request");
				else if (!(r.pend == p.lastReq)) V.add(3, r.first, F("activation round %zu evaluates %s but the guard request was %s", k + 1, trStr(r.pend).c_str(), trStr(p.lastReq).c_str()));
				if (r.hasEntry && r.pend.valid && r.entryState != r.pend.dest) V.add(3, r.first, F("entry guard of s%d consulted for pending destination s%d", sidOf(r.entryState), sidOf(r.pend.dest)));
			}
			if (!w.rounds.empty()) {
				const uint32_t g0 = w.rounds.front().first, g1 = w.rounds.back().last;
				for (uint32_t i = g0; i <= g1 && i < w.e; ++i) { const Ev& x = t.ev[i]; if (x.inst == w.inst && x.kind == EV_CB && isLife(x.method)) { V.add(3, i, "enter/exit/reenter ran during guard evaluation (activation)"); break; } }
				const uint8_t want = w.survivor >= 1 ? w.rounds[w.survivor].pend.dest : 0;
				const LifeSeq ls = lifeSelf(t, w);
				for (size_t k = 0; k < ls.v.size(); ++k) if (ls.v[k].first != M_EXIT && ls.v[k].second != want)
					V.add(3, ls.at[k], F("activation entered s%d, but %s", ls.v[k].second, w.survivor >= 1 ? F("the last redirect that passed its entry guards was %s", trStr(w.rounds[w.survivor].pend).c_str()).c_str() : "every redirect was cancelled by an entry guard (the initial state s0 is the fall-back)"));
				const Ev& e = t.ev[w.e - 1];
				if (e.mAct != want) V.add(3, w.e - 1, F("activation ended in s%d; expected s%d (%s)", sidOf(e.mAct), want, w.survivor >= 1 ? "destination of the last redirect that passed its entry guards" : "initial state: no redirect survived"));
			}
			continue;
		}
		if (!w.processing || f.bare) continue;
		for (size_t k = 0; k < w.rounds.size(); ++k) {
			const Round& r = w.rounds[k];
			if (r.entryAfterExitCancel) V.add(3, r.last, "entry guard consulted although the exit guard cancelled");
			if (r.entryBeforeExit || !r.hasExit) V.add(3, r.first, "entry guard consulted before / without the exit guard");
			if (r.hasExit && r.exitState != w.activeBefore) V.add(3, r.first, F("exit guard of s%d consulted but s%d is active", sidOf(r.exitState), sidOf(w.activeBefore)));
			if (r.hasEntry && r.entryState != r.pend.dest) V.add(3, r.first, F("entry guard of s%d consulted for pending destination s%d", sidOf(r.entryState), sidOf(r.pend.dest)));
			if (!r.exitCancelled && !r.hasEntry) V.add(3, r.last, "exit guard passed but the entry guard was not consulted");
			if (!r.pend.valid) V.add(3, r.first, "guards consulted without a pending transition");
			if (k > 0) {
				const Round& p = w.rounds[k - 1];
				if (!p.madeReq) V.add(3, r.first, "a further guard round ran although the previous round made no request");
				else if (!(r.pend == p.lastReq)) V.add(3, r.first, F("round %zu evaluates %s but the guard request was %s", k + 1, trStr(r.pend).c_str(), trStr(p.lastReq).c_str()));
			}
		}
		// no lifecycle callback while guards are still being evaluated
		if (!w.rounds.empty()) {
			const uint32_t g0 = w.rounds.front().first, g1 = w.rounds.back().last;
			for (uint32_t i = g0; i <= g1 && i < w.e; ++i) { const Ev& e = t.ev[i]; if (e.inst == w.inst && e.kind == EV_CB && isLife(e.method)) { V.add(3, i, "enter/exit/reenter ran during guard evaluation"); break; } }
		}
		if (w.lostRequest.valid && !w.rounds.empty()) V.add(3, w.rounds.back().last, F("the guard request %s was neither evaluated by a fresh round of guards nor left outstanding (accepted so far: %s)", trStr(w.lostRequest).c_str(), w.survivor >= 0 ? trStr(w.rounds[w.survivor].pend).c_str() : "-"));
		// every enter/reenter is justified by the last passing round
		const LifeSeq ls = lifeSelf(t, w);
		for (size_t k = 0; k < ls.v.size(); ++k) {
			if (ls.v[k].first == M_EXIT) continue;
			const uint8_t X = ls.v[k].second;
			if (w.survivor < 0) V.add(3, ls.at[k], F("s%d entered although every request was cancelled by a guard", X));
			else if (w.rounds[w.survivor].pend.dest != X) V.add(3, ls.at[k], F("s%d entered, but the last request that passed its guards was %s", X, trStr(w.rounds[w.survivor].pend).c_str()));
		}
		const Ev& e = t.ev[w.e - 1];
		if (w.survivor < 0 && e.mAct != w.activeBefore) V.add(3, w.e - 1, "all requests were vetoed but the active state changed");
		if (w.survivor >= 0 && e.mAct != w.rounds[w.survivor].pend.dest) V.add(3, w.e - 1, F("machine ended in s%d; last request that survived its guards was %s", sidOf(e.mAct), trStr(w.rounds[w.survivor].pend).c_str()));
	}
}

// ------------------------------------------------------------------------------------------------
// C04: termination within the substitution limit
static void c04(const Trace& t, const Analysis& A, Verdict& V) {
	const Info& f = t.info;
	if (f.bare) return;
	for (const Win& w : A.wins) {
		if (!winUsable(A, w)) continue;
		if (w.processing) {
			if (w.rounds.size() > f.L) V.add(4, w.rounds[f.L].first, F("%zu guard rounds in one call, substitution limit is %u", w.rounds.size(), f.L));
			const Ev& e = t.ev[w.e - 1];
			const uint8_t want = w.survivor >= 0 ? w.rounds[w.survivor].pend.dest : w.activeBefore;
			if (w.rounds.size() >= f.L && e.mAct != want) V.add(4, w.e - 1, F("limit reached: active=%d but the surviving request names %d", sidOf(e.mAct), sidOf(want)));
			// the substitution loop may also use up iterations on requests it drops as duplicates (no guard round is visible for those), so the
			// same outcome rule is applied to every call that needed more than one round
			else if (w.rounds.size() >= 2 && e.mAct != want) V.add(4, w.e - 1, F("after %zu guard rounds the call ended in s%d, but the state chosen among the requests that passed their guards is s%d", w.rounds.size(), sidOf(e.mAct), sidOf(want)));
			if (e.mAct == NOID) V.add(4, w.e - 1, "call ended without an active state");
			// a request left over by the limit must be guarded before it is applied
			if (w.leftoverFromLimit && w.outAtStart.valid) {
				if (w.rounds.empty()) { if (e.mAct != w.activeBefore) V.add(4, w.e - 1, "left-over request applied without guards"); }
				else if (!(w.rounds[0].pend == w.outAtStart)) V.add(4, w.rounds[0].first, F("left-over request %s was replaced by %s without being requested", trStr(w.outAtStart).c_str(), trStr(w.rounds[0].pend).c_str()));
			}
		} else if (w.activation) {
			if (w.rounds.size() > size_t(f.L) + 1) V.add(4, w.rounds[f.L + 1].first, F("%zu entry-guard evaluations during activation, limit is 1+%u", w.rounds.size(), f.L));
			const Ev& e = t.ev[w.e - 1];
			if (e.mAct == NOID) V.add(4, w.e - 1, "activation ended without an active state");
			else if (w.rounds.size() >= 2 && !f.bare) {
				const uint8_t want = w.survivor >= 1 ? w.rounds[w.survivor].pend.dest : 0;
				if (e.mAct != want) V.add(4, w.e - 1, F("after %zu entry-guard rounds activation ended in s%d, but the state chosen among the redirects that passed their guards is s%d", w.rounds.size(), sidOf(e.mAct), sidOf(want)));
			}
		}
	}
}

// ------------------------------------------------------------------------------------------------
// C05: update/react cycle order
static void c05(const Trace& t, const Analysis& A, Verdict& V) {
	const Info& f = t.info;
	for (const Win& w : A.wins) {
		if (!winUsable(A, w) || w.type != WT_OP) continue;
		if (w.code != OP_UPDATE && w.code != OP_REACT && w.code != OP_QUERY) continue;
		const uint8_t s = w.activeBefore;
		std::vector<std::pair<uint8_t, uint8_t>> E;
		auto push = [&](uint8_t st, uint8_t m) { if (defines(f, st, m) || injOf(f, st) > 0) E.push_back({st, m}); };   // (the zoo's injections define every callback)
		if (w.code == OP_UPDATE) { push(NOID, M_PRE_UPDATE); push(s, M_PRE_UPDATE); push(NOID, M_UPDATE); push(s, M_UPDATE); push(s, M_POST_UPDATE); push(NOID, M_POST_UPDATE); }
		else if (w.code == OP_REACT) { push(NOID, M_PRE_REACT); push(s, M_PRE_REACT); push(NOID, M_REACT); push(s, M_REACT); push(s, M_POST_REACT); push(NOID, M_POST_REACT); }
		else { push(NOID, M_QUERY); push(s, M_QUERY); }
		const uint32_t end = w.code == OP_QUERY ? w.e : w.phaseEnd;
		std::vector<std::pair<uint8_t, uint8_t>> O; std::vector<uint32_t> at;
		for (uint32_t i = w.b + 1; i < end; ++i) {
			const Ev& e = t.ev[i];
			if (e.inst != w.inst || e.kind != EV_CB) continue;
			if (O.empty() || O.back() != std::make_pair(e.state, e.method)) { O.push_back({e.state, e.method}); at.push_back(i); }
			if ((isReactPhase(e.method) || e.method == M_QUERY) && !e.evtOk) V.add(5, i, F("s%d.%s did not receive the caller's own event object", sidOf(e.state), methName(e.method)));
			if (!e.thisOk) V.add(5, i, F("s%d.%s was not invoked on the machine's own %s object (access<T>() is a different object)", sidOf(e.state), methName(e.method), e.state == NOID ? "root" : "state"));
		}
		if (O != E) {
			std::string so, se;
			for (auto& p : O) so += F(" s%d.%s", sidOf(p.first), methName(p.second));
			for (auto& p : E) se += F(" s%d.%s", sidOf(p.first), methName(p.second));
			V.add(5, at.empty() ? w.b : at[0], F("phase deliveries:%s; expected:%s", so.c_str(), se.c_str()));
		}
		// no phase callback after the phase part (i.e. after guards / lifecycle / plan outcome started)
		for (uint32_t i = end; i < w.e; ++i) { const Ev& e = t.ev[i]; if (e.inst == w.inst && e.kind == EV_CB && (isPhase(e.method) || e.method == M_QUERY)) { V.add(5, i, F("phase callback s%d.%s after transition processing began", sidOf(e.state), methName(e.method))); break; } }
		if (w.code == OP_QUERY) {
			const Ev& b = t.ev[w.b]; const Ev& e = t.ev[w.e - 1];
			for (uint32_t i = w.b + 1; i + 1 < w.e; ++i) if (t.ev[i].kind == EV_ACT) V.add(5, i, "action inside query()");
			if (b.mAct != e.mAct || b.mActMask != e.mActMask) V.add(5, w.e - 1, "query() changed the active state");
			if (f.hasHistory && !(b.prev == e.prev)) V.add(5, w.e - 1, "query() changed previousTransition()");
			if (f.hasPlans && !sameSeq(snap(t, b), snap(t, e))) V.add(5, w.e - 1, "query() changed the plan");
			if (f.hasSerial && (b.hasSerial != e.hasSerial || b.serial != e.serial)) V.add(5, w.e - 1, "query() changed the serialized form");
		}
	}
}

// expected pending / current transition for a guard callback -----------------------------------------
static void expectGuardView(const Win& w, int round, bool& pendKnown, TrV& pend, bool& curKnown, TrV& cur) {
	pendKnown = false; curKnown = true; cur = TrV{};
	if (round < 0) { curKnown = false; return; }
	if (w.activation) {
		if (round == 0) { pendKnown = true; pend = TrV{}; }
		else { const Round& p = w.rounds[round - 1]; if (p.madeReq) { pendKnown = true; pend = p.lastReq; } }
		for (int k = round - 1; k >= 1; --k) if (!w.rounds[k].cancelled) { cur = w.rounds[k].pend; break; }
		return;
	}
	if (round == 0) { if (w.outKnownAtStart || w.outAtStart.valid) { pendKnown = true; pend = w.outAtStart; } }
	else { const Round& p = w.rounds[round - 1]; if (p.madeReq) { pendKnown = true; pend = p.lastReq; } }
	for (int k = round - 1; k >= 0; --k) if (!w.rounds[k].cancelled) { cur = w.rounds[k].pend; break; }
}

// ------------------------------------------------------------------------------------------------
// C06: control objects give a consistent view
static void c06(const Trace& t, const Analysis& A, Verdict& V) {
	const Info& f = t.info;
	for (uint32_t i = 0; i < t.n; ++i) {
		const Ev& e = t.ev[i];
		if (e.kind != EV_CB || instDeadAt(A, i)) continue;
		const Ann& an = A.ann[i];
		if (e.sid != e.state) V.add(6, i, F("control.stateId()=%d inside a callback of s%d", sidOf(e.sid), sidOf(e.state)));
		if (!e.ctxOk) V.add(6, i, "control.context() is not the machine's own context object");
		if (!e.ctmplOk) V.add(6, i, "control.isActive<T>() disagrees with control.isActive(id)");
		if (!e.cprevOk) V.add(6, i, "control.previousTransitions() differs from machine.previousTransition()");
		if (e.cAct != e.mActMask) V.add(6, i, F("control.isActive(id) mask %llx != machine.isActive(id) mask %llx (active=%d)", (unsigned long long) e.cAct, (unsigned long long) e.mActMask, sidOf(e.mAct)));
		if (f.hasPlans && !(e.planFlags & PF_CTL_EQUAL)) V.add(6, i, "control.plan() shows a different plan than machine.plan()");
		if (an.outKnown && !f.bare && !(e.req == an.out)) V.add(6, i, F("control.request()=%s but the outstanding request is %s", trStr(e.req).c_str(), trStr(an.out).c_str()));
		// an empty "transition accepted so far" is really empty: it names no origin and carries nothing over from an earlier step
		if (e.ctl != CTL_CONST && !e.cur.valid && (e.cur.origin != NOID || e.cur.hasPay)) V.add(6, i, F("currentTransition() is empty but still shows origin %d%s from an earlier step", sidOf(e.cur.origin), e.cur.hasPay ? " and a payload" : ""));
		if (an.win < 0) continue;
		const Win& w = A.wins[an.win];
		if (isGuard(e.method) && (w.processing || w.activation) && !f.bare) {
			bool pk, ck; TrV p, c;
			expectGuardView(w, an.round, pk, p, ck, c);
			if (pk && !(e.pend == p)) V.add(6, i, F("pendingTransition()=%s, the request under evaluation is %s", trStr(e.pend).c_str(), trStr(p).c_str()));
			if (ck && !(e.cur == c)) V.add(6, i, F("currentTransition()=%s, accepted so far: %s", trStr(e.cur).c_str(), trStr(c).c_str()));
		}
		if ((e.method == M_ENTER || e.method == M_REENTER) && e.state != NOID && w.processing && !f.bare) {
			const TrV want = w.survivor >= 0 ? w.rounds[w.survivor].pend : TrV{};
			if (!(e.cur == want)) V.add(6, i, F("currentTransition() in %s = %s, applied transition is %s", methName(e.method), trStr(e.cur).c_str(), trStr(want).c_str()));
		}
	}
}

// ------------------------------------------------------------------------------------------------
// C07: payload integrity
static void c07(const Trace& t, const Analysis& A, Verdict& V) {
	const Info& f = t.info;
	if (!f.paySize) return;
	auto chk = [&](const TrV& x, uint32_t i, const char* what) {
		if (x.valid && x.hasPay && !x.exact) V.add(7, i, F("%s shows a corrupted payload (seed byte %u)", what, x.seed));
		if (x.valid && x.hasPay && !x.aligned) V.add(7, i, F("%s hands out a misaligned payload pointer (alignof=%u)", what, f.payAlign));
	};
	auto payEq = [](const TrV& a, const TrV& b) { return a.hasPay == b.hasPay && (!a.hasPay || a.seed == b.seed); };
	for (uint32_t i = 0; i < t.n; ++i) {
		const Ev& e = t.ev[i];
		if (instDeadAt(A, i)) continue;
		if (e.kind == EV_CB) { chk(e.req, i, "control.request()"); chk(e.pend, i, "pendingTransition()"); chk(e.cur, i, "currentTransition()");
			if (e.ctl != CTL_CONST && !e.cur.valid && e.cur.hasPay) V.add(7, i, F("currentTransition() is empty but exposes a payload (seed byte %u) that belongs to a request of an earlier step", e.cur.seed)); }
		if (hasSnap(e)) {
			chk(e.prev, i, "previousTransition()");
			for (uint32_t k = 0; k < e.planLen; ++k) { const TaskV& q = t.pool[e.planOff + k]; if (q.hasPay && !q.exact) V.add(7, i, "plan task shows a corrupted payload"); if (q.hasPay && !q.aligned) V.add(7, i, "plan task hands out a misaligned payload pointer"); }
		}
		if (e.kind != EV_CB || f.bare) continue;
		const Ann& an = A.ann[i];
		if (an.win < 0) continue;
		const Win& w = A.wins[an.win];
		if (an.outKnown && e.req.valid && an.out.valid && e.req.dest == an.out.dest && e.req.origin == an.out.origin && !payEq(e.req, an.out))
			V.add(7, i, F("control.request() payload %s, request was made with %s", trStr(e.req).c_str(), trStr(an.out).c_str()));
		if (isGuard(e.method) && (w.processing || w.activation)) {
			bool pk, ck; TrV p, c;
			expectGuardView(w, an.round, pk, p, ck, c);
			if (pk && p.valid && e.pend.valid && e.pend.dest == p.dest && e.pend.origin == p.origin && !payEq(e.pend, p)) V.add(7, i, F("pendingTransition() payload %s, request carried %s", trStr(e.pend).c_str(), trStr(p).c_str()));
			if (pk && !p.valid && e.pend.hasPay) V.add(7, i, "payload shown without a request");
		}
		if ((e.method == M_ENTER || e.method == M_REENTER) && e.state != NOID && w.processing) {
			const TrV want = w.survivor >= 0 ? w.rounds[w.survivor].pend : TrV{};
			if (want.valid && e.cur.valid && !payEq(e.cur, want)) V.add(7, i, F("currentTransition() payload in %s is %s, the applied request carried %s", methName(e.method), trStr(e.cur).c_str(), trStr(want).c_str()));
		}
	}
	if (!f.bare) for (const Win& w : A.wins) {
		if (!winUsable(A, w) || !(w.processing || w.activation)) continue;
		if (w.lostRequest.valid && w.lostRequest.hasPay) V.add(7, w.rounds.back().last, F("the payload of request %s was dropped: the request was neither evaluated nor cancelled, and the destination sees %s instead", trStr(w.lostRequest).c_str(), w.survivor >= 0 ? trStr(w.rounds[w.survivor].pend).c_str() : "no transition"));
	}
	if (f.hasHistory && !f.bare) for (const Win& w : A.wins) {
		if (!winUsable(A, w) || !w.processing) continue;
		const Ev& e = t.ev[w.e - 1];
		if (w.survivor >= 0 && e.prev.valid && !payEq(e.prev, w.rounds[w.survivor].pend)) V.add(7, w.e - 1, F("previousTransition() payload %s, applied request carried %s", trStr(e.prev).c_str(), trStr(w.rounds[w.survivor].pend).c_str()));
		if (w.survivor < 0 && e.prev.hasPay) V.add(7, w.e - 1, "previousTransition() shows a payload although no transition was applied");
	}
	// plan task payload travels with the request it fires
	if (f.hasPlans && !f.bare) for (const Win& w : A.wins) {
		if (!winUsable(A, w) || !w.plan.present || w.plan.fired.empty() || w.rounds.empty()) continue;
		// only when no later request replaced it (outcome callbacks cannot exist together with fired tasks)
		const TaskV& q = w.plan.fired.back();
		const TrV& p = w.rounds[0].pend;
		if (p.valid && p.origin == q.origin && p.dest == q.dest && (p.hasPay != q.hasPay || (q.hasPay && p.seed != q.seed)))
			V.add(7, w.rounds[0].first, F("plan task %u>%u payload %u fired a request with payload %s", q.origin, q.dest, q.hasPay ? q.seed : 0, trStr(p).c_str()));
	}
}

// ------------------------------------------------------------------------------------------------
// C11: transition history and replay
static void c11(const Trace& t, const Analysis& A, Verdict& V) {
	const Info& f = t.info;
	if (!f.hasHistory) return;
	uint8_t lastAuthActive = NOID; bool haveAuth = false;
	for (const Win& w : A.wins) {
		if (!winUsable(A, w)) continue;
		if (w.type == WT_TEARDOWN) continue;
		const Ev& e = t.ev[w.e - 1];
		if (w.processing) {
			// the history describes the last *completed* step until this one is over
			const Ev& b0 = t.ev[w.b];
			for (uint32_t i = w.b + 1; i + 1 < w.e; ++i) { const Ev& x = t.ev[i]; if (x.inst == w.inst && x.kind == EV_CB && (!(x.prev == b0.prev) || x.prev.valid != b0.prev.valid)) { V.add(11, i, F("inside s%d.%s previousTransition() already reads %s, before the step it read %s (the step is not over)", sidOf(x.state), methName(x.method), trStr(x.prev).c_str(), trStr(b0.prev).c_str())); break; } }
		}
		if ((w.processing || w.activation) && !f.bare && w.lostRequest.valid)
			V.add(11, w.e - 1, F("the most recent request that no guard cancelled was %s, but it was never processed: previousTransition()=%s describes an earlier request", trStr(w.lostRequest).c_str(), trStr(e.prev).c_str()));
		if ((w.processing || w.activation) && e.prev.valid && e.prev.hasPay && !e.prev.exact)
			V.add(11, w.e - 1, F("previousTransition() carries a payload whose bytes are not those of any payload that was requested (first byte %u, the rest differs from the value that was attached)", e.prev.seed));
		if (w.processing && !f.bare) {
			if (w.survivor >= 0) {
				const TrV& s = w.rounds[w.survivor].pend;
				if (!e.prev.valid) V.add(11, w.e - 1, F("previousTransition() is empty after %s was applied", trStr(s).c_str()));
				else {
					if (e.prev.dest != e.mAct) V.add(11, w.e - 1, F("previousTransition().destination=%d but s%d is active", sidOf(e.prev.dest), sidOf(e.mAct)));
					if (!(e.prev == s)) V.add(11, w.e - 1, F("previousTransition()=%s but the applied (surviving) request was %s", trStr(e.prev).c_str(), trStr(s).c_str()));
					// ... and it is the request as its author made it (origin, destination, payload), not merely what the guards were shown
					const int k = w.survivor;
					if (k == 0 ? (w.outKnownAtStart && w.outAtStart.valid) : bool(w.rounds[k - 1].madeReq)) {
						const TrV& asked = k == 0 ? w.outAtStart : w.rounds[k - 1].lastReq;
						if (!(e.prev == asked)) V.add(11, w.e - 1, F("previousTransition()=%s but the surviving request was made as %s", trStr(e.prev).c_str(), trStr(asked).c_str()));
					}
				}
			} else if (e.prev.valid) V.add(11, w.e - 1, F("previousTransition()=%s although the step applied no transition", trStr(e.prev).c_str()));
		}
		if (w.activation && !f.bare) {
			if (e.prev.valid) {
				if (e.prev.dest != e.mAct) V.add(11, w.e - 1, F("after activation previousTransition().destination=%d but s%d is active", sidOf(e.prev.dest), sidOf(e.mAct)));
				if (w.survivor < 1) V.add(11, w.e - 1, "after activation previousTransition() is set although no redirect was accepted");
				else if (!(e.prev == w.rounds[w.survivor].pend)) V.add(11, w.e - 1, F("after activation previousTransition()=%s, accepted redirect was %s", trStr(e.prev).c_str(), trStr(w.rounds[w.survivor].pend).c_str()));
				else if (w.rounds[w.survivor - 1].madeReq && !(e.prev == w.rounds[w.survivor - 1].lastReq)) V.add(11, w.e - 1, F("after activation previousTransition()=%s, but the accepted redirect was requested as %s", trStr(e.prev).c_str(), trStr(w.rounds[w.survivor - 1].lastReq).c_str()));
			} else if (w.survivor >= 1) V.add(11, w.e - 1, "activation accepted a redirect but previousTransition() is empty");
		}
		if (w.type == WT_OP && w.code == OP_REPLAY) {
			for (uint32_t i = w.b; i < w.e; ++i) { const Ev& x = t.ev[i]; if (x.inst == w.inst && x.kind == EV_CB && !isLife(x.method)) { V.add(11, i, F("replay ran s%d.%s (only enter/exit/reenter may run)", sidOf(x.state), methName(x.method))); break; } }
			const Ev& b = t.ev[w.b];
			int ret = -1;
			for (uint32_t i = w.b; i < w.e; ++i) if (t.ev[i].kind == EV_NOTE && (t.ev[i].method == NOTE_REPLAY_RESULT)) ret = t.ev[i].a;
			for (uint32_t i = w.b; i < w.e; ++i) if (t.ev[i].kind == EV_NOTE && (t.ev[i].method == NOTE_SYNC) && t.ev[i].b == 0) ret = t.ev[i].c;
			if (b.a == NOID) {
				if (ret != 0) V.add(11, w.e - 1, "replayTransition(invalid) did not return false");
				for (uint32_t i = w.b + 1; i + 1 < w.e; ++i) if (t.ev[i].kind == EV_CB) { V.add(11, i, "replayTransition(invalid) ran a callback"); break; }
				if (b.mAct != e.mAct) V.add(11, w.e - 1, "replayTransition(invalid) changed the active state");
				if (f.hasPlans && !sameSeq(snap(t, b), snap(t, e))) V.add(11, w.e - 1, "replayTransition(invalid) changed the plan");
			} else {
				if (b.b == 0 && ret == 0) V.add(11, w.e - 1, "replayTransition(valid id) returned false");
				if (e.mAct != b.a) V.add(11, w.e - 1, F("after replay to s%d the active state is %d", b.a, sidOf(e.mAct)));
				if (!f.bare) {
					const LifeSeq ls = lifeSelf(t, w);
					bool ok;
					if (b.mAct == NOID) ok = ls.v.size() == 1 && ls.v[0] == std::make_pair(uint8_t(M_ENTER), b.a);
					else if (b.mAct != b.a) ok = ls.v.size() == 2 && ls.v[0] == std::make_pair(uint8_t(M_EXIT), b.mAct) && ls.v[1] == std::make_pair(uint8_t(M_ENTER), b.a);
					else ok = ls.v.size() == 1 && ls.v[0] == std::make_pair(uint8_t(M_REENTER), b.a);
					if (!ok) V.add(11, w.e - 1, "replay did not run exactly the needed enter/exit/reenter callbacks");
				}
				if (e.prev.valid && e.prev.dest != e.mAct) V.add(11, w.e - 1, "after replay previousTransition().destination is not the active state");
				// what was applied is the replayed transition: it names the destination and nothing else (no requester, no payload of some earlier request)
				if (b.b == 1 && e.prev.valid && (e.prev.hasPay || e.prev.origin != NOID)) V.add(11, w.e - 1, F("after replayEnter(%u) previousTransition() reads %s: it still carries the origin / payload of a transition of an earlier activation", b.a, trStr(e.prev).c_str()));
				if (b.b == 0 && ret == 1 && e.prev.valid && (e.prev.hasPay || e.prev.origin != NOID)) V.add(11, w.e - 1, F("after replayTransition(%u) previousTransition() reads %s: it still carries the origin / payload of an earlier, unrelated transition", b.a, trStr(e.prev).c_str()));
			}
		}
		if (f.scenario == SC_REPLICA) {
			if (w.inst == 0 && w.type != WT_TEARDOWN) { lastAuthActive = e.mAct; haveAuth = true; }
			if (w.inst == 1 && w.type == WT_OP) {
				for (uint32_t i = w.b; i < w.e; ++i) { const Ev& x = t.ev[i]; if (x.inst == 1 && x.kind == EV_CB && isGuard(x.method)) { V.add(11, i, "a guard was consulted on the replica"); break; } }
				if (haveAuth && e.mAct != lastAuthActive) V.add(11, w.e - 1, F("replica is in s%d, authority is in s%d", sidOf(e.mAct), sidOf(lastAuthActive)));
			}
		}
	}
}

// ------------------------------------------------------------------------------------------------
// C15: injections nest LIFO
static void c15(const Trace& t, const Analysis& A, Verdict& V) {
	const Info& f = t.info;
	uint32_t i = 0;
	while (i < t.n) {
		const Ev& e = t.ev[i];
		if (e.kind != EV_CB || instDeadAt(A, i)) { ++i; continue; }
		// collect the run of consecutive CBs (ignoring non-CB events) of the same (inst, state, method)
		std::vector<uint32_t> run;
		uint32_t j = i;
		while (j < t.n) {
			const Ev& x = t.ev[j];
			if (x.kind == EV_CB) { if (x.inst == e.inst && x.state == e.state && x.method == e.method) run.push_back(j); else break; }
			else if (x.kind == EV_BEGIN || x.kind == EV_END) break;
			++j;
		}
		const int k = isOutcome(e.method) ? 0 : injOf(f, e.state);
		const bool own = isOutcome(e.method) || defines(f, e.state, e.method);   // a state that does not define the callback contributes none of its own
		const size_t block = size_t(k) + (own ? 1 : 0);
		if (block == 0) { V.add(15, run[0], F("s%d.%s ran although neither the state nor an injection defines it", sidOf(e.state), methName(e.method))); i = j > i ? j : i + 1; continue; }
		const bool fwd = e.method == M_ENTRY_GUARD || e.method == M_ENTER || e.method == M_REENTER || e.method == M_PRE_UPDATE || e.method == M_UPDATE || e.method == M_PRE_REACT || e.method == M_REACT;
		const bool rev = e.method == M_EXIT || e.method == M_POST_UPDATE || e.method == M_POST_REACT;
		// lifecycle and phase events reach a state at most once per API call (only guard rounds can repeat back to back), so the run is ONE delivery
		if (!isGuard(e.method) && run.size() != block) V.add(15, run[0], F("s%d.%s: one %s event invoked %zu callbacks; with %d injection(s)%s exactly %zu are due (each injection once%s)", sidOf(e.state), methName(e.method), methName(e.method), run.size(), k, own ? " and the state's own callback" : ", the state defining none itself,", block, own ? ", the state once" : ""));
		else if (run.size() % block != 0) V.add(15, run[0], F("s%d.%s: %zu callbacks for a state with %d injections (each delivery must invoke %zu)", sidOf(e.state), methName(e.method), run.size(), k, block));
		else for (size_t b = 0; b + block <= run.size(); b += block) {
			uint32_t seen = 0; bool once = true;
			for (size_t q = 0; q < block; ++q) { const uint8_t w = t.ev[run[b + q]].who; const int idx = w == WHO_SELF ? k : w; if (idx > k || (idx == k && !own) || (seen >> idx) & 1) once = false; else seen |= 1u << idx; }
			if (!once) { V.add(15, run[b], F("s%d.%s: an injection or the state itself was not invoked exactly once", sidOf(e.state), methName(e.method))); continue; }
			for (size_t q = 0; q < block && (fwd || rev); ++q) {
				const uint8_t w = t.ev[run[b + q]].who; const int idx = w == WHO_SELF ? k : w;
				const int want = fwd ? int(q) : int(k - (own ? 0 : 1)) - int(q);
				if (idx != want) { V.add(15, run[b + q], F("s%d.%s: wrong nesting order of injections (position %zu has index %d, expected %d)", sidOf(e.state), methName(e.method), q, idx, want)); break; }
			}
		}
		i = j > i ? j : i + 1;
	}
}

// C14 (zoo part): access<T>() returns the very object whose callbacks run -- for every callback kind, injections and the root head
static void c14(const Trace& t, const Analysis& A, Verdict& V) {
	for (uint32_t i = 0; i < t.n; ++i) {
		const Ev& e = t.ev[i];
		if (e.kind != EV_CB || instDeadAt(A, i)) continue;
		if (!e.thisOk) V.add(14, i, F("s%d.%s ran on an object that is not machine.access<T>() (who=%d)", sidOf(e.state), methName(e.method), e.who == WHO_SELF ? -1 : e.who));
		if (!e.ctmplOk) V.add(14, i, F("inside s%d.%s the control's type-addressed forms (stateId<T>(), isActive<T>()) do not resolve T to its declaration position", sidOf(e.state), methName(e.method)));
		if (e.live && !e.tmplOk) V.add(14, i, "the machine's type-addressed forms (stateId<T>(), isActive<T>()) do not resolve T to its declaration position");
	}
	const Info& f = t.info;
	for (const Win& w : A.wins) {
		if (!w.complete || w.aborted || A.ann[w.b].dead) continue;
		bool guardActed = false;
		for (const Round& r : w.rounds) if (r.madeReq || r.cancelled) guardActed = true;
		const Ev& e = t.ev[w.e - 1];
		// the first declared state is the initial state (however the machine was constructed)
		if (w.activation && !guardActed) {
			if (e.mAct != 0) V.add(14, w.e - 1, F("after activation the active state is %d, not the first declared state", sidOf(e.mAct)));
			for (uint32_t i = w.b; i < w.e; ++i) { const Ev& x = t.ev[i]; if (x.inst == w.inst && x.kind == EV_CB && x.state != NOID && x.state != 0) { V.add(14, i, F("activation ran s%d.%s although the first declared state is the initial state", x.state, methName(x.method))); break; } }
			if (!(f.bare & 1)) { bool entered = false; for (uint32_t i = w.b; i < w.e; ++i) { const Ev& x = t.ev[i]; if (x.inst == w.inst && x.kind == EV_CB && x.state == 0 && x.method == M_ENTER && x.who == WHO_SELF) entered = true; } if (!entered) V.add(14, w.e - 1, "activation did not run enter() of the first declared state"); }
		}
		// a request for id k that no guard touches activates exactly the k-th declared state, and only the two states involved see callbacks
		if (w.processing && w.rounds.size() == 1 && !guardActed && w.rounds[0].pend.valid && !f.bare) {
			const uint8_t k = w.rounds[0].pend.dest;
			if (e.mAct != k) V.add(14, w.e - 1, F("a request for state id %u, untouched by guards, activated s%d", k, sidOf(e.mAct)));
			for (uint32_t i = w.rounds[0].first; i < w.e; ++i) { const Ev& x = t.ev[i]; if (x.inst == w.inst && x.kind == EV_CB && x.state != NOID && x.state != k && x.state != w.activeBefore) { V.add(14, i, F("s%d.%s ran while a transition s%d -> s%u was being applied", x.state, methName(x.method), sidOf(w.activeBefore), k)); break; } }
		}
	}
}

// plans, serialization, logging, determinism: predicates_plans.cpp
void c08(const Trace&, const Analysis&, Verdict&);
void c09(const Trace&, const Analysis&, Verdict&);
void c10(const Trace&, const Analysis&, Verdict&);
void c12(const Trace&, const Analysis&, Verdict&);
void c16(const Trace&, const Analysis&, Verdict&);
void c17(const Trace&, const Analysis&, Verdict&);
void c18(const Trace&, const Analysis&, Verdict&);

void checkTrace(const Trace& t, const Analysis& A, uint32_t armed, Verdict& out) {
	auto on = [&](int k) { return (armed >> k) & 1u; };
	if (t.budgetAbort && on(4)) out.add(4, t.n ? t.n - 1 : 0, F("an API call ran more than 64*L+64 = %u callbacks without returning (last: s%d.%s): request processing does not terminate within the substitution limit", 64u * t.info.L + 64u, sidOf(t.budgetState), methName(t.budgetMethod)));
	if (t.overflow) return;
	if (on(1)) c01(t, A, out);
	if (on(2)) c02(t, A, out);
	if (on(3)) c03(t, A, out);
	if (on(4)) c04(t, A, out);
	if (on(5)) c05(t, A, out);
	if (on(6)) c06(t, A, out);
	if (on(7)) c07(t, A, out);
	if (on(8)) c08(t, A, out);
	if (on(9)) c09(t, A, out);
	if (on(10)) c10(t, A, out);
	if (on(11)) c11(t, A, out);
	if (on(12)) c12(t, A, out);
	if (on(14)) c14(t, A, out);
	if (on(15)) c15(t, A, out);
	if (on(16)) c16(t, A, out);
	if (on(17)) c17(t, A, out);
	if (on(18)) c18(t, A, out);
}

}  // namespace vf
