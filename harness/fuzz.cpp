// libFuzzer target for the zoo harness: bytes -> case -> scripted world -> armed predicates.
// Environment: VF_PROP (property number, 0 = all), VF_OUT (directory for violating cases), VF_CFGS (comma list)
#include "eval.hpp"
#include <cstdlib>
#include <string>

using namespace vf;

namespace {
int g_prop = -1;
uint32_t g_armed = 0;
std::string g_out = ".";
uint64_t g_allowed = ~0ull;
EvalCtx* X = nullptr;
uint64_t g_execs = 0, g_nontrivial = 0;

void init() {
	const char* p = getenv("VF_PROP");
	g_prop = p ? atoi(p) : 0;
	g_armed = g_prop == 0 ? 0xFFFFFFFEu : (1u << g_prop);
	if (const char* o = getenv("VF_OUT")) g_out = o;
	if (const char* c = getenv("VF_CFGS")) { g_allowed = 0; std::string s = c; size_t i = 0; while (i < s.size()) { g_allowed |= 1ull << (atoi(s.c_str() + i) & 63); i = s.find(',', i); if (i == std::string::npos) break; ++i; } }
	X = new EvalCtx();
}
}

extern "C" int LLVMFuzzerTestOneInput(const uint8_t* data, size_t size) {
	if (g_prop < 0) init();
	Case c = decode(data, size);
	if (g_allowed != ~0ull) {
		const int n = zooCount();
		int k = c.cfg % n;
		for (int t = 0; t < n && !((g_allowed >> k) & 1); ++t) k = (k + 1) % n;
		c.cfg = uint8_t(k);
	}
	Verdict V;
	evaluate(c, g_armed, V, *X);
	++g_execs;
	if (nontrivial(g_prop, V.classes)) ++g_nontrivial;
	if (!V.v.empty()) {
		const auto bytes = encode(c);
		char name[256];
		snprintf(name, sizeof name, "%s/viol-C%02d-%016llx.case", g_out.c_str(), V.v[0].prop, (unsigned long long) fnv(bytes.data(), bytes.size()));
		writeFile(name, bytes);
		fprintf(stderr, "VF-VIOLATION prop=C%02d file=%s msg=%s\n", V.v[0].prop, name, V.v[0].msg.c_str());
		fprintf(stderr, "VF-COUNTERS execs=%llu nontrivial=%llu\n", (unsigned long long) g_execs, (unsigned long long) g_nontrivial);
		fflush(stderr);
		__builtin_trap();
	}
	return 0;
}
