// Property predicates over traces. One pure function per property; no FFSM2 dependency.
#pragma once
#include "analysis.hpp"

namespace vf {

struct Violation { int prop; uint32_t ev; std::string msg; };

// does the class of state `s` define callback `m`? (the root head, when present, defines all of them; a headless root none)
inline bool defines(const Info& f, uint8_t s, uint8_t m) { if (s == NOID) return f.head != 0; return s < MASK_BITS && ((f.defMask[s] >> m) & 1); }

// class flags measured on every executed case (what the case actually exercised)
enum ClassBit : uint64_t {
	CL_TRANSITIONS2   = 1ull << 0,   // >= 2 applied transitions (exit/enter pairs or re-entries)
	CL_GUARD_CANCEL   = 1ull << 1,   // a guard cancelled
	CL_ROUNDS2        = 1ull << 2,   // a processing window with >= 2 guard rounds
	CL_VETO_AFTER_PASS= 1ull << 3,   // a cancelled round after an earlier passing round (F1 shape)
	CL_LIMIT_LEFTOVER = 1ull << 4,   // exactly L rounds with a request left over
	CL_LOAD           = 1ull << 5,
	CL_REPLAY         = 1ull << 6,
	CL_REACTIVATION   = 1ull << 7,   // manual machine entered more than once / reconstruct
	CL_COPY           = 1ull << 8,
	CL_REQ_OVERWRITE  = 1ull << 9,   // >= 2 requests before one processing point
	CL_PHASE_REQUEST  = 1ull << 10,  // a phase callback requested or reported before the cycle's last phase callback
	CL_STATE0_INACTIVE_CB = 1ull << 11, // a callback ran while state 0 was not active
	CL_CB_WITH_REQ    = 1ull << 12,  // a callback ran with an outstanding request
	CL_PAYLOAD_MIX    = 1ull << 13,  // payload-free request overwrote a payload-carrying one or vice versa
	CL_PLAN_FIRE      = 1ull << 14,  // a plan task fired
	CL_PLAN_FIRE_PAY  = 1ull << 15,  // a plan task with payload fired
	CL_PLAN_MULTI     = 1ull << 16,  // a task fired while >= 2 tasks with >= 2 distinct origins were planned
	CL_OUTCOME_SUCC   = 1ull << 17,
	CL_OUTCOME_FAIL   = 1ull << 18,
	CL_REPORT_NO_PLAN = 1ull << 19,  // a cycle with an outstanding report and no task ever appended (F6 shape)
	CL_PLAN_FULL      = 1ull << 20,  // the plan reached full capacity
	CL_PLAN_REFILL    = 1ull << 21,  // full, >= 2 slots freed in non-LIFO order, refilled
	CL_INJ2           = 1ull << 22,  // a delivery to a state with >= 2 injections
	CL_LOGGER_TOGGLE  = 1ull << 23,
	CL_REPLICA_MULTIROUND = 1ull << 24, // replica scenario: authority step with veto after pass
	CL_SAVE_LOAD_DIFF = 1ull << 25,  // load where saver and loader activity differ
	CL_COPY_NONTRIV   = 1ull << 26,  // copy right after an applied transition / with outstanding request / with a plan
	CL_ALIGN4         = 1ull << 27,  // payload alignment >= 4 used in a request
	CL_EXIT_WITH_REQ  = 1ull << 28,  // exit()/destruction with an outstanding request
	CL_ACTIVATION_REDIRECT = 1ull << 29,
	CL_FORK           = 1ull << 30,
	CL_CANCEL_LOG     = 1ull << 31,
	CL_REENTER        = 1ull << 32,
	CL_REPLAY_INVALID = 1ull << 33,
	CL_ABORTED        = 1ull << 34,
	CL_QUERY          = 1ull << 35,
	CL_REACT          = 1ull << 36,
	CL_PLAN_EDIT_IN_CB= 1ull << 37,
	CL_SUFFICIENCY    = 1ull << 38,  // a C08/C09 sufficiency trigger occurred
};

struct Verdict {
	std::vector<Violation> v;
	uint64_t classes = 0;
	void add(int prop, uint32_t ev, const std::string& m) { if (v.size() < 8) v.push_back({prop, ev, m}); }
};

uint64_t classify(const Trace& t, const Analysis& A);
bool nontrivial(int prop, uint64_t classes);
const char* nontrivialRule(int prop);

// armed: bit k set = property C(k) is checked
void checkTrace(const Trace& t, const Analysis& A, uint32_t armed, Verdict& out);

}  // namespace vf
