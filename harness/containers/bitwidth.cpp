// bitWidth(): for every 32-bit v >= 1, v - 1 < 2^bitWidth(v) (the width derived for a state count encodes every index of that
// count); bitWidth(0) == 0; widths are monotone. Modes: `boundaries`, `range LO HI` (exhaustive over [LO, HI)), `list FILE`.
#ifdef VF_DEV
#include <ffsm2/machine_dev.hpp>
#else
#include <ffsm2/machine.hpp>
#endif
#include <cstdio>
#include <cstdlib>
#include <cstring>

static bool check(uint64_t v, uint64_t& bad) {
	const uint32_t w = ffsm2::bitWidth(static_cast<uint32_t>(v));
	if (v == 0) { if (w != 0) { bad = v; return false; } return true; }
	if (w > 32) { bad = v; return false; }
	const uint64_t limit = w >= 64 ? ~0ull : (1ull << w);
	if (!(v - 1 < limit)) { bad = v; return false; }
	// not wasteful by more than the statement allows is not claimed; but the width must not shrink as v grows
	if (v > 1 && ffsm2::bitWidth(static_cast<uint32_t>(v - 1)) > w) { bad = v; return false; }
	return true;
}

int main(int argc, char** argv) {
	if (argc < 2) return 2;
	uint64_t bad = 0, n = 0;
	if (!strcmp(argv[1], "range") && argc >= 4) {
		const uint64_t lo = strtoull(argv[2], nullptr, 10), hi = strtoull(argv[3], nullptr, 10);
		for (uint64_t v = lo; v < hi; ++v) { ++n; if (!check(v, bad)) { printf("VIOLATION bitWidth(%llu)=%u\n", (unsigned long long) bad, ffsm2::bitWidth(uint32_t(bad))); return 1; } }
	} else if (!strcmp(argv[1], "list") && argc >= 3) {
		FILE* f = fopen(argv[2], "r"); if (!f) return 2;
		unsigned long long v;
		while (fscanf(f, "%llu", &v) == 1) { ++n; if (!check(v, bad)) { printf("VIOLATION bitWidth(%llu)=%u\n", (unsigned long long) bad, ffsm2::bitWidth(uint32_t(bad))); fclose(f); return 1; } }
		fclose(f);
	} else return 2;
	printf("checked %llu\n", (unsigned long long) n);
	return 0;
}
