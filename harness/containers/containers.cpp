// Container harness: BitArrayT, StaticArrayT, DynamicArrayT (C20), TaskListT (C10 layer 2), bit streams (C13)
// against reference models, for every capacity in [VF_CLO, VF_CHI]. rapidcheck generates the operation sequences.
//   containers <what> --stats FILE --out DIR --tag T        (RC_PARAMS configures rapidcheck)
//   containers replay <what> FILE
// what: bitarray | static | dynamic | tasklist | stream
#define FFSM2_ENABLE_PLANS
#define FFSM2_ENABLE_SERIALIZATION
#ifdef VF_DEV
#include <ffsm2/machine_dev.hpp>
#else
#include <ffsm2/machine.hpp>
#endif

#include <rapidcheck.h>
#include <array>
#include <cstdarg>
#include <cstdio>
#include <cstring>
#include <fstream>
#include <map>
#include <set>
#include <string>
#include <unordered_set>
#include <vector>
#include <csignal>
#include <fcntl.h>
#include <unistd.h>

#ifndef VF_CLO
#define VF_CLO 1
#endif
#ifndef VF_CHI
#define VF_CHI 16
#endif

#if defined(__SANITIZE_ADDRESS__)
#define VF_ASAN 1
#elif defined(__has_feature)
#if __has_feature(address_sanitizer)
#define VF_ASAN 1
#endif
#endif

namespace {

// Plain build: the container sits between canaries (writes outside the object are seen). AddressSanitizer build: the container is a
// heap object of its own, so that reads and writes outside it hit a redzone (canaries inside one struct would hide them from ASan).
template <class T> struct Boxed {
#ifdef VF_ASAN
	T* p;
	Boxed() : p(new T()) {}
	~Boxed() { delete p; }
	T& get() { return *p; }
	bool intact() const { return true; }
#else
	struct G { uint8_t c0[16]; T v; uint8_t c1[16]; } g;
	Boxed() { memset(g.c0, 0xA5, 16); memset(g.c1, 0x5A, 16); }
	T& get() { return g.v; }
	bool intact() const { for (int k = 0; k < 16; ++k) if (g.c0[k] != 0xA5 || g.c1[k] != 0x5A) return false; return true; }
#endif
	Boxed(const Boxed&) = delete;
};

using ffsm2::detail::BitArrayT;
using ffsm2::detail::StaticArrayT;
using ffsm2::detail::DynamicArrayT;
using ffsm2::detail::TaskListT;

struct Op { int kind, a, b, c; };
struct Seq { int cap; int aux; std::vector<Op> ops; };

struct Fail { bool failed = false; std::string msg; void set(const std::string& m) { if (!failed) { failed = true; msg = m; } } };

std::string S(const char* fmt, ...) {
	char b[400]; va_list ap; va_start(ap, fmt); vsnprintf(b, sizeof b, fmt, ap); va_end(ap); return b;
}

struct Stats { uint64_t evals = 0, nontrivial = 0; std::unordered_set<uint64_t> distinct; std::vector<std::string> samples; std::map<int, uint64_t> caps; };
Stats g_st;

uint64_t hashSeq(const Seq& s) {
	uint64_t h = 1469598103934665603ull;
	auto mix = [&](uint64_t v) { h ^= v; h *= 1099511628211ull; };
	mix(s.cap); mix(s.aux);
	for (const Op& o : s.ops) { mix(o.kind); mix(o.a); mix(o.b); mix(o.c); }
	return h;
}
std::string renderSeq(const char* what, const Seq& s) {
	std::string r = S("%s capacity=%d aux=%d ops=%zu:", what, s.cap, s.aux, s.ops.size());
	for (size_t i = 0; i < s.ops.size() && i < 40; ++i) r += S(" (%d,%d,%d,%d)", s.ops[i].kind, s.ops[i].a, s.ops[i].b, s.ops[i].c);
	if (s.ops.size() > 40) r += " ...";
	return r;
}

// ---------------------------------------------------------------------------------------------
// BitArrayT<C> vs std::vector<bool>.  kinds: 0 set(i) 1 clear(i) 2 get(i) 3 set() 4 clear() 5 empty() 6 &= other (other = bits given by a,b,c as pseudo-random mask seed)
// The template parameter is an unsigned capacity: 256 is the first one beyond what an 8-bit index can count. Checked once per sequence,
// with the operations of the sequence mapped onto 256 indices.
static void bitArray256(const Seq& s, Fail& F) {
	Boxed<BitArrayT<256>> box;
	BitArrayT<256>& arr = box.get();
	std::vector<bool> m(256, false);
	for (size_t k = 0; k < s.ops.size() && k < 24 && !F.failed; ++k) {
		const Op& o = s.ops[k];
		const int i = ((o.a * 7 + o.b) % 256 + 256) % 256;
		switch (o.kind % 4) {
		case 0: arr.set(i); m[i] = true; break;
		case 1: arr.clear(i); m[i] = false; break;
		case 2: if (o.c % 9 == 0) { arr.set(); for (int q = 0; q < 256; ++q) m[q] = true; } break;
		default: if (o.c % 9 == 0) { arr.clear(); for (int q = 0; q < 256; ++q) m[q] = false; } break;
		}
	}
	bool none = true;
	for (int i = 0; i < 256 && !F.failed; ++i) { if (arr.get(i) != m[i]) F.set(S("BitArrayT<256>: get(%d)=%d, model says %d", i, int(arr.get(i)), int(m[i]))); if (m[i]) none = false; }
	if (!F.failed && arr.empty() != none) F.set("BitArrayT<256>: empty() disagrees with the model");
	if (!F.failed && !box.intact()) F.set("BitArrayT<256>: wrote outside the object");
	if (!F.failed && sizeof(BitArrayT<256>) < 32) F.set("BitArrayT<256> is smaller than 256 bits");
}
template <int C>
bool runBitArray(const Seq& s, Fail& F, bool& nontrivial) {
	if (C == VF_CHI) { bitArray256(s, F); if (F.failed) return false; }
	Boxed<BitArrayT<C>> box;
	BitArrayT<C>& arr = box.get();
	std::vector<bool> m(C, false);
	bool setAllSeen = false, clearedAfterSetAll = false;
	auto verify = [&](size_t step) {
		bool none = true;
		if (!box.intact()) { F.set(S("BitArrayT<%d>: wrote outside the object", C)); return; }
		for (int i = 0; i < C; ++i) {
			if (arr.get(i) != m[i]) { F.set(S("BitArrayT<%d>: after op %zu get(%d)=%d, model says %d", C, step, i, int(arr.get(i)), int(m[i]))); return; }
			if (m[i]) none = false;
		}
		if (arr.empty() != none) F.set(S("BitArrayT<%d>: after op %zu empty()=%d but the model %s", C, step, int(arr.empty()), none ? "is empty" : "has members"));
		if (!box.intact()) F.set(S("BitArrayT<%d>: wrote outside the object", C));
	};
	verify(0);
	for (size_t k = 0; k < s.ops.size() && !F.failed; ++k) {
		const Op& o = s.ops[k];
		const int i = ((o.a % C) + C) % C;
		switch (o.kind % 7) {
		case 0: arr.set(i); m[i] = true; break;
		case 1: arr.clear(i); m[i] = false; if (setAllSeen) clearedAfterSetAll = true; break;
		case 2: if (arr.get(i) != m[i]) F.set(S("BitArrayT<%d>: get(%d) wrong", C, i)); break;
		case 3: arr.set(); for (int q = 0; q < C; ++q) m[q] = true; setAllSeen = true; break;
		case 4: arr.clear(); for (int q = 0; q < C; ++q) m[q] = false; break;
		case 5: break;
		case 6: {
			BitArrayT<C> other; std::vector<bool> om(C, false);
			uint32_t x = uint32_t(o.a) * 2654435761u + uint32_t(o.b) * 40503u + uint32_t(o.c) + 1u;
			if (o.c % 5 == 0) { other.set(); for (int q = 0; q < C; ++q) om[q] = true; }
			for (int q = 0; q < C; ++q) { x ^= x << 13; x ^= x >> 17; x ^= x << 5; if (x & 1) { other.set(q); om[q] = true; } else if (o.c % 5 == 0 && (x & 6) == 0) { other.clear(q); om[q] = false; } }
			arr &= other;
			for (int q = 0; q < C; ++q) m[q] = m[q] && om[q];
			break; }
		}
		verify(k + 1);
	}
	// clear every index one by one: the array must end up empty whatever happened before
	for (int i = 0; i < C && !F.failed; ++i) { arr.clear(i); m[i] = false; }
	if (!F.failed) verify(s.ops.size() + 1);
	nontrivial = (C % 8 != 0) && setAllSeen && clearedAfterSetAll;
	return !F.failed;
}

// ---------------------------------------------------------------------------------------------
// StaticArrayT<T,C> vs std::vector.  kinds: 0 store(i,v) 1 load(i) 2 fill(v) 3 clear() 4 iterate 5 empty()
template <int C>
bool runStatic(const Seq& s, Fail& F, bool& nontrivial) {
	using T = uint32_t;
	{	// constructed from a filler: every element holds it
		const T fv = T(s.aux) * 2654435761u + 1u;
		StaticArrayT<T, C> filled0{fv};
		for (int i = 0; i < C; ++i) if (filled0[i] != fv) { F.set(S("StaticArrayT<uint32,%d>{filler}: element %d is %u, not the filler %u", C, i, filled0[i], fv)); return false; }
	}
	StaticArrayT<T, C> arr;
	StaticArrayT<ffsm2::Short, C> sh;       // the Short specialisation of filler<> (INVALID_SHORT)
	std::vector<T> m(C, T{});
	std::vector<ffsm2::Short> ms(C, ffsm2::Short{});
	bool filled = false;
	auto verify = [&](size_t step) {
		if (arr.count() != C) F.set(S("StaticArrayT<%d>: count()=%d", C, int(arr.count())));
		for (int i = 0; i < C; ++i) {
			if (arr[i] != m[i]) { F.set(S("StaticArrayT<uint32,%d>: after op %zu [%d]=%u, last stored %u", C, step, i, arr[i], m[i])); return; }
			if (sh[i] != ms[i]) { F.set(S("StaticArrayT<Short,%d>: after op %zu [%d]=%u, last stored %u", C, step, i, sh[i], ms[i])); return; }
		}
		const StaticArrayT<T, C>& ca = arr;
		for (int i = 0; i < C; ++i) if (ca[i] != m[i]) { F.set(S("StaticArrayT<%d>: const operator[] differs", C)); return; }
	};
	verify(0);
	for (size_t k = 0; k < s.ops.size() && !F.failed; ++k) {
		const Op& o = s.ops[k];
		const int i = ((o.a % C) + C) % C;
		const T v = T(o.b) * 2654435761u + T(o.c);
		switch (o.kind % 6) {
		case 0: arr[i] = v; m[i] = v; sh[i] = ffsm2::Short(v); ms[i] = ffsm2::Short(v); break;
		case 1: if (arr[i] != m[i]) F.set(S("StaticArrayT<%d>: [%d] wrong", C, i)); break;
		case 2: arr.fill(v); sh.fill(ffsm2::Short(v)); for (int q = 0; q < C; ++q) { m[q] = v; ms[q] = ffsm2::Short(v); } filled = true; break;
		case 3: arr.clear(); sh.clear(); for (int q = 0; q < C; ++q) { m[q] = T{}; ms[q] = ffsm2::INVALID_SHORT; } filled = true; break;
		case 4: {
#ifdef VF_STATIC_ITER
			int q = 0;
			for (auto& x : arr) { if (q >= C) { F.set(S("StaticArrayT<%d>: iteration ran past the capacity", C)); break; } if (x != m[q]) { F.set(S("StaticArrayT<%d>: iteration position %d yields %u, expected %u", C, q, x, m[q])); break; } ++q; }
			if (!F.failed && q != C) F.set(S("StaticArrayT<%d>: iteration visited %d elements", C, q));
			const StaticArrayT<T, C>& ca = arr; q = 0;
			for (const auto& x : ca) { if (q >= C || x != m[q]) { F.set(S("StaticArrayT<%d>: const iteration wrong at %d", C, q)); break; } ++q; }
			{ int n1 = 0; for (auto it = arr.cbegin(); it != arr.cend() && n1 <= C; ++it) { if (n1 >= C || *it != m[n1]) { F.set(S("StaticArrayT<%d>: cbegin()..cend() wrong at %d", C, n1)); break; } ++n1; } if (!F.failed && n1 != C) F.set(S("StaticArrayT<%d>: cbegin()..cend() visited %d elements", C, n1)); }
			{ int n2 = 0; for (auto it = ca.begin(); it != ca.end() && n2 <= C; ++it) { if (n2 >= C || *it != m[n2]) { F.set(S("StaticArrayT<%d>: const begin()..end() wrong at %d", C, n2)); break; } ++n2; } if (!F.failed && n2 != C) F.set(S("StaticArrayT<%d>: const begin()..end() visited %d elements", C, n2)); }
			if (!F.failed && q != C) F.set(S("StaticArrayT<%d>: const iteration visited %d elements", C, q));
#endif
			break; }
		case 5: {
			bool all = true; for (int q = 0; q < C; ++q) if (m[q] != T{}) all = false;
			if (arr.empty() != all) F.set(S("StaticArrayT<%d>: empty()=%d, model %d", C, int(arr.empty()), int(all)));
			bool alls = true; for (int q = 0; q < C; ++q) if (ms[q] != ffsm2::INVALID_SHORT) alls = false;
			if (sh.empty() != alls) F.set(S("StaticArrayT<Short,%d>: empty()=%d, model %d", C, int(sh.empty()), int(alls)));
			break; }
		}
		verify(k + 1);
	}
	nontrivial = filled && s.ops.size() >= 3;
	return !F.failed;
}

// ---------------------------------------------------------------------------------------------
// DynamicArrayT<T,C> vs std::vector.  kinds: 0 emplace(v) 1 += v 2 [i] 3 clear 4 iterate 5 += other array (b elements) 6 write [i]
// element type whose move is observably different from its copy (a moved-from element is hollowed out)
struct Trk {
	uint32_t v;
	Trk() : v(0) {}
	Trk(uint32_t x) : v(x) {}
	Trk(const Trk& o) : v(o.v) {}
	Trk(Trk&& o) noexcept : v(o.v) { o.v = 0xDEADBEEFu; }
	Trk& operator=(const Trk& o) { v = o.v; return *this; }
};
template <int C>
bool runDynamic(const Seq& s, Fail& F, bool& nontrivial) {
	struct Item { uint32_t v; uint16_t w; };
	DynamicArrayT<Item, C> arr;
	std::vector<Item> m;
	DynamicArrayT<Trk, C> tarr;
	std::vector<uint32_t> tm;
	auto verifyT = [&](size_t step) {
		if (tarr.count() != tm.size()) { F.set(S("DynamicArrayT<Trk,%d>: after op %zu count()=%d, model %zu", C, step, int(tarr.count()), tm.size())); return; }
		for (size_t i = 0; i < tm.size(); ++i) if (tarr[i].v != tm[i]) { F.set(S("DynamicArrayT<Trk,%d>: after op %zu element %zu holds %x, last stored %x (inserting a copy of an element must not disturb it)", C, step, i, tarr[i].v, tm[i])); return; }
	};
	bool reachedFull = false;
	auto verify = [&](size_t step) {
		if (arr.count() != m.size()) { F.set(S("DynamicArrayT<%d>: after op %zu count()=%d, model %zu", C, step, int(arr.count()), m.size())); return; }
		if (arr.empty() != m.empty()) { F.set(S("DynamicArrayT<%d>: empty() wrong", C)); return; }
		for (size_t i = 0; i < m.size(); ++i) if (arr[i].v != m[i].v || arr[i].w != m[i].w) { F.set(S("DynamicArrayT<%d>: after op %zu [%zu]=%u, expected %u", C, step, i, arr[i].v, m[i].v)); return; }
		size_t q = 0;
		for (const auto& x : arr) { if (q >= m.size() || x.v != m[q].v) { F.set(S("DynamicArrayT<%d>: iteration position %zu wrong", C, q)); return; } ++q; }
		if (q != m.size()) F.set(S("DynamicArrayT<%d>: iteration visited %zu of %zu", C, q, m.size()));
		const DynamicArrayT<Item, C>& ca = arr; q = 0;
		for (const auto& x : ca) { if (q >= m.size() || x.v != m[q].v) { F.set(S("DynamicArrayT<%d>: const iteration position %zu wrong", C, q)); return; } ++q; }
		// the explicit iterator pairs: begin()/end(), const begin()/end(), cbegin()/cend()
		q = 0; for (auto it = arr.begin(); it != arr.end() && q <= size_t(C); ++it) { if (q >= m.size() || (*it).v != m[q].v) { F.set(S("DynamicArrayT<%d>: begin()..end() wrong at %zu", C, q)); return; } ++q; }
		if (q != m.size()) { F.set(S("DynamicArrayT<%d>: begin()..end() visited %zu of %zu elements", C, q, m.size())); return; }
		q = 0; for (auto it = ca.begin(); it != ca.end() && q <= size_t(C); ++it) { if (q >= m.size() || (*it).v != m[q].v) { F.set(S("DynamicArrayT<%d>: const begin()..end() wrong at %zu", C, q)); return; } ++q; }
		if (q != m.size()) { F.set(S("DynamicArrayT<%d>: const begin()..end() visited %zu of %zu elements", C, q, m.size())); return; }
		q = 0; for (auto it = arr.cbegin(); it != arr.cend() && q <= size_t(C); ++it) { if (q >= m.size() || (*it).v != m[q].v) { F.set(S("DynamicArrayT<%d>: cbegin()..cend() wrong at %zu", C, q)); return; } ++q; }
		if (q != m.size()) { F.set(S("DynamicArrayT<%d>: cbegin()..cend() visited %zu of %zu elements", C, q, m.size())); return; }
	};
	for (size_t k = 0; k < s.ops.size() && !F.failed; ++k) {
		const Op& o = s.ops[k];
		const Item it{uint32_t(o.b) * 2246822519u + uint32_t(o.c), uint16_t(o.a)};
		// tracked element type: copies of lvalues (also of elements of the array itself), moves of temporaries
		{
			const uint32_t tv = uint32_t(o.b) * 40503u + uint32_t(o.c) + 1u;
			switch (o.kind % 5) {
			case 0: if (tm.size() < size_t(C)) { Trk lv{tv}; tarr.emplace(lv); if (lv.v != tv) F.set(S("DynamicArrayT<Trk,%d>: emplace(lvalue) moved from its argument", C)); tm.push_back(tv); } break;
			case 1: if (!tm.empty() && tm.size() < size_t(C)) { const size_t i = size_t(o.a) % tm.size(); tarr.emplace(tarr[i]); tm.push_back(tm[i]); } break;
			case 2: if (!tm.empty() && tm.size() < size_t(C)) { const size_t i = size_t(o.a) % tm.size(); const DynamicArrayT<Trk, C>& ct = tarr; tarr += ct[i]; tm.push_back(tm[i]); } break;
			case 3: if (tm.size() < size_t(C)) { tarr += Trk{tv}; tm.push_back(tv); } break;
			case 4: if (o.c % 11 == 0) { tarr.clear(); tm.clear(); } else if (tm.size() < size_t(C)) { tarr.emplace(Trk{tv}); tm.push_back(tv); } break;
			}
			verifyT(k + 1);
		}
		switch (o.kind % 7) {
		case 0: if (m.size() < size_t(C)) { const auto idx = arr.emplace(it.v, it.w); if (size_t(idx) != m.size()) F.set(S("DynamicArrayT<%d>: emplace returned %d, expected %zu", C, int(idx), m.size())); m.push_back(it); } break;
		case 1: if (m.size() < size_t(C)) {
				auto&& r = (arr += it); m.push_back(it);
				if (static_cast<const void*>(&r) != static_cast<const void*>(&arr)) F.set(S("DynamicArrayT<%d>: operator+=(item) does not return the array itself", C));
				if (m.size() + 2 <= size_t(C) && (o.a & 1)) { const Item it2{it.v ^ 0x5555u, uint16_t(it.w + 1)}; (arr += it) += it2; m.push_back(it); m.push_back(it2); }   // chained appends
			} break;
		case 2: if (!m.empty()) { const size_t i = size_t(o.a) % m.size(); if (arr[i].v != m[i].v) F.set(S("DynamicArrayT<%d>: [%zu] wrong", C, i)); } break;
		case 3: arr.clear(); m.clear(); break;
		case 4: {
			// value semantics: a copy holds the same elements; assigning a copy back, or the array to itself, changes nothing
			DynamicArrayT<Item, C> copy{arr};
			if (copy.count() != m.size()) F.set(S("DynamicArrayT<%d>: a copy holds %d elements, the original %zu", C, int(copy.count()), m.size()));
			for (size_t i = 0; i < m.size() && !F.failed; ++i) if (copy[i].v != m[i].v) F.set(S("DynamicArrayT<%d>: copy element %zu differs", C, i));
			if (o.a & 1) { DynamicArrayT<Item, C>& alias = arr; arr = alias; }      // self-assignment
			else if (o.a & 2) { arr = copy; }                                        // assignment of an equal array
			else { DynamicArrayT<Item, C> shorter; if (!m.empty()) shorter += m[0]; DynamicArrayT<Item, C> keep{arr}; arr = shorter; arr = keep; }   // shrink, then restore
			break; }
		case 5: {
			DynamicArrayT<Item, 7> other;
			const size_t n = size_t(o.b) % 8;
			std::vector<Item> add;
			for (size_t q = 0; q < n && m.size() + add.size() < size_t(C); ++q) { const Item x{uint32_t(o.c + q) * 7919u, uint16_t(q)}; other.emplace(x.v, x.w); add.push_back(x); }
			auto&& r = (arr += other);
			m.insert(m.end(), add.begin(), add.end());
			if (static_cast<const void*>(&r) != static_cast<const void*>(&arr)) F.set(S("DynamicArrayT<%d>: operator+=(array) does not return the array itself", C));
			// chained: everything appended through the result of an append must land in the array
			if ((o.a & 1) && m.size() + 1 <= size_t(C)) { (arr += DynamicArrayT<Item, 7>{}) += it; m.push_back(it); }
			if ((o.a & 2) && m.size() + other.count() <= size_t(C)) { DynamicArrayT<Item, 7> none; (arr += none) += other; m.insert(m.end(), add.begin(), add.end()); }
			break; }
		case 6: if (!m.empty()) { const size_t i = size_t(o.a) % m.size(); arr[i] = it; m[i] = it; } break;
		}
		if (m.size() == size_t(C)) reachedFull = true;
		verify(k + 1);
	}
	nontrivial = reachedFull;
	return !F.failed;
}

// ---------------------------------------------------------------------------------------------
// TaskListT<Payload,C> vs slot map.  kinds: 0/1 emplace(origin,dest[,payload]) 2 remove(pick) 3 read(pick) 4 clear 5 drain-and-refill
struct P44 { alignas(4) uint8_t b[4]; };
template <int C, class PAY>
bool runTaskList(const Seq& s, Fail& F, bool& nontrivial) {
	using List = TaskListT<PAY, C>;
	Boxed<List> box;
	List& list = box.get();
	struct T { uint8_t o, d; bool hasPay; uint8_t seed; };
	std::map<int, T> m;
	bool wasFull = false, freedNonLifo = false, refilled = false; int lastEmplaced = -1, freedSinceFull = 0;
	auto readBack = [&](int idx, const T& t, size_t step) {
		const auto& item = list[static_cast<typename List::Index>(idx)];
		if (item.origin != t.o || item.destination != t.d) { F.set(S("TaskListT<%d>: after op %zu slot %d holds %u>%u, stored %u>%u", C, step, idx, item.origin, item.destination, t.o, t.d)); return; }
		if constexpr (!std::is_void<PAY>::value) {
			const PAY* p = item.payload();
			if ((p != nullptr) != t.hasPay) { F.set(S("TaskListT<%d>: slot %d payload presence wrong", C, idx)); return; }
			if (p) { if (reinterpret_cast<uintptr_t>(p) % alignof(PAY)) F.set(S("TaskListT<%d>: slot %d payload misaligned", C, idx)); for (int q = 0; q < 4; ++q) if (p->b[q] != uint8_t(t.seed + q * 31)) { F.set(S("TaskListT<%d>: slot %d payload bytes changed", C, idx)); return; } }
		}
	};
	auto verify = [&](size_t step) {
		if (list.count() != m.size()) { F.set(S("TaskListT<%d>: after op %zu count()=%d, %zu occupied", C, step, int(list.count()), m.size())); return; }
		if (list.empty() != m.empty()) { F.set(S("TaskListT<%d>: empty() wrong", C)); return; }
		for (const auto& kv : m) { readBack(kv.first, kv.second, step); if (F.failed) return; }
		if (!box.intact()) { F.set(S("TaskListT<%d>: wrote outside the object", C)); return; }
	};
	auto emplace = [&](const Op& o, size_t step) {
		if (m.size() >= size_t(C)) return;   // a full list is flagged by the library (FFSM2_BREAK); the full case is exercised through Plan::change
		T t{uint8_t(o.a), uint8_t(o.b), false, uint8_t(o.c)};
		int idx;
		if constexpr (!std::is_void<PAY>::value) {
			if (o.kind % 6 == 1) { PAY p; for (int q = 0; q < 4; ++q) p.b[q] = uint8_t(t.seed + q * 31); idx = list.emplace(t.o, t.d, p); t.hasPay = true; }
			else idx = list.emplace(t.o, t.d);
		} else idx = list.emplace(t.o, t.d);
		if (idx < 0 || idx >= C) { F.set(S("TaskListT<%d>: op %zu emplace returned index %d with %zu of %d occupied", C, step, idx, m.size(), C)); return; }
		if (m.count(idx)) { F.set(S("TaskListT<%d>: op %zu emplace returned occupied index %d", C, step, idx)); return; }
		m[idx] = t; lastEmplaced = idx;
		if (wasFull && freedSinceFull >= 2 && m.size() == size_t(C)) refilled = true;
	};
	auto removePick = [&](int pick, size_t) {
		if (m.empty()) return;
		auto it = m.begin(); std::advance(it, size_t(pick) % m.size());
		const int idx = it->first;
		if (m.size() == size_t(C)) { wasFull = true; freedSinceFull = 0; }
		if (idx != lastEmplaced) freedNonLifo = true;
		++freedSinceFull;
		list.remove(static_cast<typename List::Index>(idx));
		m.erase(it);
	};
	for (size_t k = 0; k < s.ops.size() && !F.failed; ++k) {
		const Op& o = s.ops[k];
		switch (o.kind % 6) {
		case 0: case 1: emplace(o, k); break;
		case 2: removePick(o.a, k); break;
		case 3: if (!m.empty()) { auto it = m.begin(); std::advance(it, size_t(o.a) % m.size()); readBack(it->first, it->second, k); } break;
		case 4: list.clear(); m.clear(); break;
		case 5: {   // fill to capacity, drain in generated order, then exactly C further emplaces must succeed
			while (m.size() < size_t(C) && !F.failed) emplace(Op{0, int(m.size()), o.b, o.c}, k);
			wasFull = true;
			int step = 1 + o.a % 7;
			while (!m.empty() && !F.failed) { removePick(step * int(m.size()) + o.b, k); }
			for (int q = 0; q < C && !F.failed; ++q) emplace(Op{0, q, q, o.c}, k);
			if (!F.failed && m.size() != size_t(C)) F.set(S("TaskListT<%d>: after emptying, only %zu of %d emplaces succeeded", C, m.size(), C));
			break; }
		}
		if (m.size() == size_t(C)) wasFull = true;
		if (!F.failed) verify(k + 1);
	}
	nontrivial = wasFull && freedNonLifo && refilled;
	return !F.failed;
}

// ---------------------------------------------------------------------------------------------
// bit stream, capacity C bits.  aux = start cursor; ops: (width 1..32, value) -- value reduced to the width
template <int C, int W> struct RW {
	static void write(ffsm2::detail::BitWriteStreamT<C>& s, uint32_t v) { s.template write<W>(static_cast<ffsm2::UBitWidth<W>>(v)); }
	static uint32_t read(ffsm2::detail::BitReadStreamT<C>& s) { return s.template read<W>(); }
};
template <int C, size_t... Ws>
void writeW(ffsm2::detail::BitWriteStreamT<C>& s, int w, uint32_t v, std::index_sequence<Ws...>) {
	using Fn = void (*)(ffsm2::detail::BitWriteStreamT<C>&, uint32_t);
	static const Fn table[] = {&RW<C, int(Ws) + 1>::write...};
	table[w - 1](s, v);
}
template <int C, size_t... Ws>
uint32_t readW(ffsm2::detail::BitReadStreamT<C>& s, int w, std::index_sequence<Ws...>) {
	using Fn = uint32_t (*)(ffsm2::detail::BitReadStreamT<C>&);
	static const Fn table[] = {&RW<C, int(Ws) + 1>::read...};
	return table[w - 1](s);
}
template <int C>
bool runStream(const Seq& s, Fail& F, bool& nontrivial) {
	using Buffer = ffsm2::detail::StreamBufferT<C>;
	Boxed<Buffer> box;
	struct { Buffer& b; } g{box.get()};
	constexpr int BYTES = Buffer::BYTE_COUNT;
	if (s.aux & 1) memset(static_cast<void*>(&g.b), 0xEE, sizeof(Buffer));          // raw garbage over the whole object ...
	else { new (&g.b) Buffer(); for (int k = 0; k < BYTES; ++k) g.b.data()[k] = 0xEE; }   // ... or stale bytes written through data() into a properly constructed buffer
	if (Buffer::BIT_CAPACITY != C || BYTES != (C + 7) / 8) { F.set(S("StreamBufferT<%d>: BYTE_COUNT=%d", C, BYTES)); return false; }
	const int c0 = ((s.aux % C) + C) % C;
	ffsm2::detail::BitWriteStreamT<C> ws{g.b, static_cast<ffsm2::Long>(c0)};
	std::vector<bool> bits(size_t(BYTES) * 8, false);
	int cursor = c0;
	struct Fld { int w; uint32_t v; };
	std::vector<Fld> fields;
	bool straddle = false;
	auto modelBytes = [&](int k) { uint8_t b = 0; for (int q = 0; q < 8; ++q) if (bits[size_t(k) * 8 + q]) b |= uint8_t(1u << q); return b; };
	auto verify = [&](size_t step) {
		if (int(ws.cursor()) != cursor) { F.set(S("stream<%d>: after field %zu cursor=%d, expected %d", C, step, int(ws.cursor()), cursor)); return; }
		for (int k = 0; k < BYTES; ++k) if (g.b.data()[k] != modelBytes(k)) { F.set(S("stream<%d>: after field %zu byte %d = %02x, bit-vector model says %02x (start cursor %d)", C, step, k, g.b.data()[k], modelBytes(k), c0)); return; }
		if (!box.intact()) { F.set(S("stream<%d>: wrote outside the buffer", C)); return; }
	};
	verify(0);
	// a reader attached to the buffer BEFORE anything is written reads the fields as they appear (both stream ends share the buffer)
	ffsm2::detail::BitReadStreamT<C> early{g.b, static_cast<ffsm2::Long>(c0)};
	size_t earlyNext = 0; int earlyCursor = c0;
	auto catchUp = [&]() {
		while (earlyNext < fields.size() && !F.failed) {
			const uint32_t v = readW<C>(early, fields[earlyNext].w, std::make_index_sequence<32>{});
			earlyCursor += fields[earlyNext].w;
			if (v != fields[earlyNext].v) F.set(S("stream<%d>: a reader constructed before the writes read field %zu (width %d at bit %d) as %x, written %x", C, earlyNext, fields[earlyNext].w, earlyCursor - fields[earlyNext].w, v, fields[earlyNext].v));
			if (int(early.cursor()) != earlyCursor) F.set(S("stream<%d>: early reader cursor %d, expected %d", C, int(early.cursor()), earlyCursor));
			++earlyNext;
		}
	};
	for (size_t k = 0; k < s.ops.size() && !F.failed; ++k) {
		int w = 1 + ((s.ops[k].a % 32) + 32) % 32;
		if (cursor + w > C) w = C - cursor;
		if (w <= 0) break;
		uint32_t v = uint32_t(s.ops[k].b) * 2654435761u ^ uint32_t(s.ops[k].c);
		if (s.ops[k].kind % 4 == 0) v = 0xFFFFFFFFu;
		if (s.ops[k].kind % 4 == 1) v = 1u << (uint32_t(s.ops[k].c) % uint32_t(w));
		if (w < 32) v &= (1u << w) - 1u;
		if ((cursor % 8) != 0 && ((cursor % 8) + w) > 16) straddle = true;
		// stale bits put (through data()) into the rest of the byte the field ends in, while the writer is alive: a write alters only the bits of
		// its own field; the stale bits are taken out again before the next field
		int dirtyFrom = -1, dirtyTo = -1;
		if ((s.ops[k].c & 3) == 1 && ((cursor + w) % 8) != 0) {
			dirtyFrom = cursor + w; dirtyTo = ((cursor + w) / 8 + 1) * 8;
			for (int q = dirtyFrom; q < dirtyTo; ++q) { g.b.data()[q / 8] |= uint8_t(1u << (q % 8)); bits[size_t(q)] = true; }
		}
		writeW<C>(ws, w, v, std::make_index_sequence<32>{});
		for (int q = 0; q < w; ++q) bits[size_t(cursor + q)] = (v >> q) & 1u;
		if (dirtyFrom >= 0) {
			for (int k2 = 0; k2 < BYTES && !F.failed; ++k2) if (g.b.data()[k2] != modelBytes(k2)) F.set(S("stream<%d>: writing a %d-bit field at bit %d changed bits outside the field (byte %d = %02x, expected %02x with the stale bits above the field kept)", C, w, cursor, k2, g.b.data()[k2], modelBytes(k2)));
			for (int q = dirtyFrom; q < dirtyTo; ++q) { g.b.data()[q / 8] &= uint8_t(~(1u << (q % 8))); bits[size_t(q)] = false; }
		}
		cursor += w;
		fields.push_back({w, v});
		verify(k + 1);
		if ((s.ops[k].b & 3) == 0) catchUp();
	}
	if (!F.failed) {
		// a reader positioned ahead of time at the last field
		catchUp();
		ffsm2::detail::BitReadStreamT<C> rs{g.b, static_cast<ffsm2::Long>(c0)};
		int rc = c0;
		for (size_t k = 0; k < fields.size() && !F.failed; ++k) {
			const uint32_t v = readW<C>(rs, fields[k].w, std::make_index_sequence<32>{});
			rc += fields[k].w;
			if (v != fields[k].v) F.set(S("stream<%d>: field %zu (width %d at bit %d) read back %x, written %x", C, k, fields[k].w, rc - fields[k].w, v, fields[k].v));
			if (int(rs.cursor()) != rc) F.set(S("stream<%d>: read cursor %d, expected %d", C, int(rs.cursor()), rc));
		}
		// buffer equality operators
		Buffer copy = g.b;
		if (!(copy == g.b) || (copy != g.b)) F.set(S("stream<%d>: buffer does not compare equal to its copy", C));
		if (cursor > c0) { copy.data()[c0 / 8] ^= uint8_t(1u << (c0 % 8)); if ((copy == g.b) || !(copy != g.b)) F.set(S("stream<%d>: buffers with different bytes compare equal", C)); }
	}
	nontrivial = straddle;
	return !F.failed;
}

// ---------------------------------------------------------------------------------------------
using RunFn = bool (*)(const Seq&, Fail&, bool&);
template <template <int> class R, int LO, size_t... Is>
void fillTable(RunFn* t, std::index_sequence<Is...>) { ((t[Is] = &R<LO + int(Is)>::run), ...); }

template <int C> struct RBit { static bool run(const Seq& s, Fail& f, bool& n) { return runBitArray<C>(s, f, n); } };
template <int C> struct RSta { static bool run(const Seq& s, Fail& f, bool& n) { return runStatic<C>(s, f, n); } };
template <int C> struct RDyn { static bool run(const Seq& s, Fail& f, bool& n) { return runDynamic<C>(s, f, n); } };
template <int C> struct RTskV { static bool run(const Seq& s, Fail& f, bool& n) { return runTaskList<C, void>(s, f, n); } };
template <int C> struct RTskP { static bool run(const Seq& s, Fail& f, bool& n) { return runTaskList<C, P44>(s, f, n); } };
template <int C> struct RStr { static bool run(const Seq& s, Fail& f, bool& n) { return runStream<C>(s, f, n); } };

constexpr int NCAP = VF_CHI - VF_CLO + 1;
RunFn g_table[NCAP];
RunFn g_table2[NCAP];

bool setup(const std::string& what) {
	using Seqn = std::make_index_sequence<NCAP>;
	if (what == "bitarray") fillTable<RBit, VF_CLO>(g_table, Seqn{});
	else if (what == "static") fillTable<RSta, VF_CLO>(g_table, Seqn{});
	else if (what == "dynamic") fillTable<RDyn, VF_CLO>(g_table, Seqn{});
	else if (what == "tasklist") { fillTable<RTskV, VF_CLO>(g_table, Seqn{}); fillTable<RTskP, VF_CLO>(g_table2, Seqn{}); }
	else if (what == "stream") fillTable<RStr, VF_CLO>(g_table, Seqn{});
	else return false;
	return true;
}

bool runOne(const std::string& what, const Seq& s, Fail& F, bool& nontrivial) {
	const int idx = s.cap - VF_CLO;
	if (idx < 0 || idx >= NCAP) return true;
	if (what == "tasklist" && (s.aux & 1)) return g_table2[idx](s, F, nontrivial);
	return g_table[idx](s, F, nontrivial);
}

std::vector<uint8_t> encodeSeq(const Seq& s) {
	std::vector<uint8_t> o{uint8_t(s.cap), uint8_t(s.aux & 0xFF), uint8_t((s.aux >> 8) & 0xFF)};
	for (const Op& p : s.ops) { o.push_back(uint8_t(p.kind)); o.push_back(uint8_t(p.a & 0xFF)); o.push_back(uint8_t((p.a >> 8) & 0xFF)); o.push_back(uint8_t(p.b)); o.push_back(uint8_t(p.c)); }
	return o;
}
Seq decodeSeq(const std::vector<uint8_t>& d) {
	Seq s{1, 0, {}};
	if (d.size() >= 3) { s.cap = d[0]; s.aux = d[1] | (d[2] << 8); }
	for (size_t i = 3; i + 5 <= d.size(); i += 5) s.ops.push_back(Op{d[i], d[i + 1] | (d[i + 2] << 8), d[i + 3], d[i + 4]});
	return s;
}

template <class T> rc::Gen<T> rng(T lo, T hi) { return rc::gen::resize(rc::kNominalSize, rc::gen::inRange<T>(lo, hi)); }

std::string jsonEscape(const std::string& s) { std::string o; for (char c : s) { if (c == '"' || c == '\\') { o += '\\'; o += c; } else if (c == '\n') o += "\\n"; else o += c; } return o; }

}  // namespace

// ---- watchdog: a container operation sequence that does not return within the alarm (normal: microseconds) is saved (async-signal-safe)
//      and the process exits with 97; the driver confirms the hang three times through `replay` before it reports it
static uint8_t g_wdSeq[65536]; static size_t g_wdLen = 0; static char g_wdPath[600] = {0};
static void onAlarm(int) {
	if (g_wdPath[0]) { const int fd = open(g_wdPath, O_WRONLY | O_CREAT | O_TRUNC, 0644); if (fd >= 0) { ssize_t r = write(fd, g_wdSeq, g_wdLen); (void) r; close(fd); } }
	_exit(97);
}

int main(int argc, char** argv) {
	if (argc < 2) return 2;
	std::string what = argv[1];
	if (what == "replay") {
		if (argc < 4) return 2;
		what = argv[2];
		if (!setup(what)) return 2;
		std::ifstream f(argv[3], std::ios::binary);
		std::vector<uint8_t> d((std::istreambuf_iterator<char>(f)), std::istreambuf_iterator<char>());
		const Seq s = decodeSeq(d);
		if (s.cap < VF_CLO || s.cap > VF_CHI) { printf("capacity %d not in this shard\n", s.cap); return 3; }
		Fail F; bool nt = false;
		signal(SIGALRM, onAlarm); alarm(10);
		runOne(what, s, F, nt);
		alarm(0);
		printf("%s\n", renderSeq(what.c_str(), s).c_str());
		if (F.failed) { printf("VIOLATION: %s\n", F.msg.c_str()); return 1; }
		printf("PASS\n");
		return 0;
	}
	if (!setup(what)) { fprintf(stderr, "unknown harness %s\n", what.c_str()); return 2; }
	std::string statsPath, outDir = ".", tag = "w0", capsArg;
	for (int i = 2; i + 1 < argc; ++i) {
		if (!strcmp(argv[i], "--stats")) statsPath = argv[i + 1];
		if (!strcmp(argv[i], "--out")) outDir = argv[i + 1];
		if (!strcmp(argv[i], "--tag")) tag = argv[i + 1];
		if (!strcmp(argv[i], "--caps")) capsArg = argv[i + 1];
	}
	std::vector<int> caps;
	if (capsArg.empty()) for (int c = VF_CLO; c <= VF_CHI; ++c) caps.push_back(c);
	else { size_t i = 0; while (i < capsArg.size()) { const int c = atoi(capsArg.c_str() + i); if (c >= VF_CLO && c <= VF_CHI) caps.push_back(c); i = capsArg.find(',', i); if (i == std::string::npos) break; ++i; } }
	if (caps.empty()) { if (!statsPath.empty()) { std::ofstream o(statsPath); o << "{\"evaluations\": 0, \"distinct_nontrivial\": 0, \"failed\": false, \"samples\": [], \"caps\": {}}\n"; } return 0; }
	static Seq lastFail; static std::string lastMsg; static bool have = false;
	size_t capCursor = 0;
	snprintf(g_wdPath, sizeof g_wdPath, "%s/%s-%s-hang.seq", outDir.c_str(), what.c_str(), tag.c_str());
	signal(SIGALRM, onAlarm);
	const bool ok = rc::check(what, [&]() {
		Seq s;
		// capacities are enumerated round-robin (every capacity of the shard is exercised), the operations are generated
		s.cap = caps[capCursor++ % caps.size()];
		s.aux = *rng<int>(0, 1024);
		s.ops = *rc::gen::container<std::vector<Op>>(rc::gen::exec([&]() { Op o; o.kind = *rng<int>(0, 42); o.a = *rng<int>(0, 1024); o.b = *rng<int>(0, 256); o.c = *rng<int>(0, 256); return o; }));
		Fail F; bool nt = false;
		{ const auto wb = encodeSeq(s); g_wdLen = wb.size() < sizeof g_wdSeq ? wb.size() : sizeof g_wdSeq; memcpy(g_wdSeq, wb.data(), g_wdLen); }
		alarm(20);
		runOne(what, s, F, nt);
		alarm(0);
		++g_st.evals; ++g_st.caps[s.cap];
		if (nt) { ++g_st.nontrivial; g_st.distinct.insert(hashSeq(s)); if (g_st.samples.size() < 2 && g_st.nontrivial % 53 == 1) g_st.samples.push_back(renderSeq(what.c_str(), s)); }
		if (F.failed) { lastFail = s; lastMsg = F.msg; have = true; RC_FAIL(F.msg); }
	});
	std::string replay;
	if (!ok && have) {
		replay = outDir + "/" + what + "-" + tag + ".seq";
		const auto b = encodeSeq(lastFail);
		std::ofstream o(replay, std::ios::binary); o.write(reinterpret_cast<const char*>(b.data()), std::streamsize(b.size()));
		std::ofstream t(replay + ".txt"); t << renderSeq(what.c_str(), lastFail) << "\nVIOLATION: " << lastMsg << "\n";
		printf("FALSIFIED %s replay=%s\n%s\n", what.c_str(), replay.c_str(), lastMsg.c_str());
	}
	if (!statsPath.empty()) {
		std::ofstream o(statsPath);
		o << "{\"what\": \"" << what << "\", \"evaluations\": " << g_st.evals << ", \"nontrivial\": " << g_st.nontrivial << ", \"distinct_nontrivial\": " << g_st.distinct.size()
		  << ", \"failed\": " << (ok ? "false" : "true") << ", \"replay\": \"" << jsonEscape(replay) << "\", \"message\": \"" << jsonEscape(lastMsg) << "\", \"cap_lo\": " << VF_CLO << ", \"cap_hi\": " << VF_CHI << ", \"caps\": {";
		bool first = true; for (auto& kv : g_st.caps) { o << (first ? "" : ", ") << "\"" << kv.first << "\": " << kv.second; first = false; }
		o << "}, \"samples\": [";
		for (size_t i = 0; i < g_st.samples.size(); ++i) o << (i ? ", " : "") << "\"" << jsonEscape(g_st.samples[i]) << "\"";
		o << "]}\n";
	}
	return ok ? 0 : 1;
}
