// One translation unit of the zoo: instantiates members VF_LO .. VF_HI-1 and registers them.
#include "zoo.hpp"

#ifndef VF_LO
#define VF_LO 0
#endif
#ifndef VF_HI
#define VF_HI vf::ZOO_COUNT
#endif

namespace vf {
#ifdef VF_MAIN_TU
World W;
volatile bool g_inCall = false;
volatile uint32_t g_allocs = 0;
RunFn g_zoo[ZOO_COUNT] = {};
int zooCount() { return ZOO_COUNT; }
#endif

namespace {
template <int K> struct Reg {
	static void apply() {
		if constexpr (K >= VF_LO && K < VF_HI) g_zoo[K] = &Runner<K>::run;
		if constexpr (K + 1 < ZOO_COUNT) Reg<K + 1>::apply();
	}
};
struct Init { Init() { Reg<0>::apply(); } } init;
}
}
