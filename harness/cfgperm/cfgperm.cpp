// Configuration-order harness: the five configuration aliases (ContextT, ManualActivation, SubstitutionLimitN, TaskCapacityN,
// PayloadT) applied in every one of the 120 possible orders must describe the same machine. For each order a small
// three-state machine with endlessly redirecting guards is built and driven; what is checked is behaviour, not the
// library's internal constants:
//   --prop 4   guard rounds per call <= L, entry-guard evaluations during activation <= 1 + L, exactly L rounds when every round redirects
//   --prop 1   the machine is manually activated: nothing runs and nothing is active before enter()
//   --prop 10  plan capacity: exactly CAP appends succeed
// Build with -DVF_L=<limit>. Prints one line per violating order and a summary; exit 1 on violation.
#ifdef VF_DEV
#include <ffsm2/machine_dev.hpp>
#else
#include <ffsm2/machine.hpp>
#endif
#include <cstdio>
#include <cstdlib>
#include <cstring>
#include <utility>

#ifndef VF_L
#define VF_L 2
#endif

namespace {

struct Box { int rounds = 0, entries = 0, exits = 0, callbacks = 0; bool redirect = true; };
struct Pay { char c; };
constexpr int CAP = 2;
int g_calls = 0, g_limitReached = 0;   // driven calls / calls that ran exactly L rounds with a request left over

constexpr int nth(int perm, int pos) {   // Lehmer decoding: perm in [0, 120) -> the alias applied at position pos
	int avail[5] = {0, 1, 2, 3, 4};
	int radix[5] = {24, 6, 2, 1, 1};
	int r = perm, out = 0;
	for (int k = 0; k <= pos; ++k) {
		const int d = r / radix[k]; r %= radix[k];
		out = avail[d];
		for (int j = d; j + 1 < 5 - k; ++j) avail[j] = avail[j + 1];
	}
	return out;
}

template <class C, int K, int CTXK> struct Step;
template <class C> struct Step<C, 0, 0> { using type = typename C::template ContextT<Box>; };
template <class C> struct Step<C, 0, 1> { using type = typename C::template ContextT<Box&>; };
template <class C> struct Step<C, 0, 2> { using type = typename C::template ContextT<Box*>; };
template <class C, int X> struct Step<C, 1, X> { using type = typename C::ManualActivation; };
template <class C, int X> struct Step<C, 2, X> { using type = typename C::template SubstitutionLimitN<VF_L>; };
template <class C, int X> struct Step<C, 3, X> { using type = typename C::template TaskCapacityN<CAP>; };
template <class C, int X> struct Step<C, 4, X> { using type = typename C::template PayloadT<Pay>; };

template <int P> struct Cfg {
	static constexpr int CTXK = P % 3;
	using C1 = typename Step<ffsm2::Config, nth(P, 0), CTXK>::type;
	using C2 = typename Step<C1, nth(P, 1), CTXK>::type;
	using C3 = typename Step<C2, nth(P, 2), CTXK>::type;
	using C4 = typename Step<C3, nth(P, 3), CTXK>::type;
	using type = typename Step<C4, nth(P, 4), CTXK>::type;
};

template <class T> Box& boxOf(T& c) { return c; }
template <class T> Box& boxOf(T* c) { return *c; }

template <int P> struct World {
	using M = ffsm2::MachineT<typename Cfg<P>::type>;
	struct S0; struct S1; struct S2;
	using FSM = typename M::template PeerRoot<S0, S1, S2>;
	template <int I> struct St : FSM::State {
		void entryGuard(typename FSM::GuardControl& c) {
			Box& b = boxOf(c.context()); ++b.callbacks; ++b.entries;
			if (b.redirect) c.changeWith((I + 1) % 3, Pay{char(I)});
		}
		void exitGuard(typename FSM::GuardControl& c) { Box& b = boxOf(c.context()); ++b.callbacks; ++b.exits; }
		void enter(typename FSM::State::PlanControl& c) { ++boxOf(c.context()).callbacks; }
		void update(typename FSM::FullControl& c) { Box& b = boxOf(c.context()); ++b.callbacks; c.changeTo((I + 1) % 3); }
	};
	struct S0 : St<0> {}; struct S1 : St<1> {}; struct S2 : St<2> {};
	using Instance = typename FSM::Instance;

	template <int K = Cfg<P>::CTXK> static Instance* make(void* where, Box& b) {
		if constexpr (K == 0) return new (where) Instance(b);
		else if constexpr (K == 1) return new (where) Instance(b);
		else return new (where) Instance(&b);
	}

	// returns a bit mask of violated properties: 1 -> bit 1, 4 -> bit 4, 10 -> bit 10
	static unsigned run(char* why, size_t n) {
		unsigned bad = 0;
		Box outer;
		alignas(64) static unsigned char store[sizeof(Instance)];
		Instance* m = make(store, outer);
		Box& b = boxOf(m->context());
		// manual activation survived the chain
		if (b.callbacks != 0 || m->isActive() || m->activeStateId() != ffsm2::INVALID_STATE_ID) { bad |= 1u << 1; snprintf(why, n, "machine configured with ManualActivation ran %d callbacks / is active before enter()", b.callbacks); }
		if (!m->isActive()) m->enter();
		if (b.entries > 1 + VF_L) { bad |= 1u << 4; snprintf(why, n, "%d entry-guard evaluations during activation, limit is 1+%d", b.entries, VF_L); }
		b = Box{}; b.redirect = true;
		m->immediateChangeWith(1, Pay{7});
		++g_calls; if (b.exits == VF_L) ++g_limitReached;
		if (b.exits > VF_L) { bad |= 1u << 4; snprintf(why, n, "immediateChangeWith(): %d guard rounds, substitution limit is %d", b.exits, VF_L); }
		b = Box{};
		m->update();   // left-over request, then the state's own request
		++g_calls; if (b.exits == VF_L) ++g_limitReached;
		if (b.exits > VF_L) { bad |= 1u << 4; snprintf(why, n, "update(): %d guard rounds, substitution limit is %d", b.exits, VF_L); }
		b = Box{}; b.redirect = false;
		m->update(); m->update();
		b = Box{}; b.redirect = true;
		m->react(1);
		++g_calls; if (b.exits == VF_L) ++g_limitReached;
		if (b.exits > VF_L) { bad |= 1u << 4; snprintf(why, n, "react(): %d guard rounds, substitution limit is %d", b.exits, VF_L); }
		b.redirect = false;
		m->update(); m->update();
		// plan capacity survived the chain
		int ok = 0;
		for (int k = 0; k < 8; ++k) if (m->plan().change(ffsm2::StateID(k % 3), ffsm2::StateID((k + 1) % 3))) ++ok;
		if (ok != CAP) { bad |= 1u << 10; snprintf(why, n, "%d appends succeeded on a plan configured with TaskCapacityN<%d>", ok, CAP); }
		m->~Instance();
		return bad;
	}
};

template <size_t... Ps> int all(unsigned propBit, const char* prop, std::index_sequence<Ps...>) {
	using Fn = unsigned (*)(char*, size_t);
	static const Fn table[] = {&World<int(Ps)>::run...};
	int violations = 0;
	for (size_t p = 0; p < sizeof...(Ps); ++p) {
		char why[256] = {0};
		const unsigned bad = table[p](why, sizeof why);
		if (bad & propBit) {
			++violations;
			printf("CFGPERM-VIOLATION prop=%s L=%d order=%d%d%d%d%d (0 ContextT 1 ManualActivation 2 SubstitutionLimitN 3 TaskCapacityN 4 PayloadT): %s\n", prop, VF_L,
				nth(int(p), 0), nth(int(p), 1), nth(int(p), 2), nth(int(p), 3), nth(int(p), 4), why);
		}
	}
	printf("cfgperm L=%d orders=%zu calls=%d limit_reached=%d violations=%d\n", VF_L, sizeof...(Ps), g_calls, g_limitReached, violations);
	return violations ? 1 : 0;
}

}  // namespace

int main(int argc, char** argv) {
	int prop = 4;
	for (int i = 1; i + 1 < argc; ++i) if (!strcmp(argv[i], "--prop")) prop = atoi(argv[i + 1]);
	char name[8]; snprintf(name, sizeof name, "C%02d", prop);
	return all(1u << prop, name, std::make_index_sequence<120>{});
}
