// Trace = flat event list produced by the scripted world; consumed by the predicates.
// No FFSM2 dependency.
#pragma once
#include "case.hpp"

namespace vf {

using Mask = unsigned __int128;          // one bit per state id: the zoo describes machines of up to 128 states
static constexpr int MASK_BITS = 128;
static constexpr uint8_t NOID = 0xFF;    // ffsm2::INVALID_STATE_ID
static constexpr uint8_t WHO_SELF = 0xFE;

enum EvKind : uint8_t { EV_BEGIN = 1, EV_END, EV_CB, EV_ACT, EV_LOG, EV_NOTE };

// mirrors ffsm2::Method
enum Meth : uint8_t {
	M_NONE = 0, M_ENTRY_GUARD, M_ENTER, M_REENTER, M_PRE_UPDATE, M_UPDATE, M_POST_UPDATE,
	M_PRE_REACT, M_REACT, M_QUERY, M_POST_REACT, M_EXIT_GUARD, M_EXIT, M_PLAN_SUCCEEDED, M_PLAN_FAILED, M_COUNT
};
inline const char* methName(uint8_t m) {
	static const char* n[] = {"none", "entryGuard", "enter", "reenter", "preUpdate", "update", "postUpdate",
		"preReact", "react", "query", "postReact", "exitGuard", "exit", "planSucceeded", "planFailed"};
	return m < M_COUNT ? n[m] : "?";
}

enum Ctl : uint8_t { CTL_CONST = 0, CTL_PLAN, CTL_FULL, CTL_GUARD };
enum LogKind : uint8_t { LOG_METHOD = 0, LOG_TRANSITION, LOG_TASK, LOG_PLAN, LOG_CANCEL };
enum NoteKind : uint8_t {
	NOTE_CONSTRUCT = 1,  // a = fill, b = logger attached
	NOTE_DESTROY,
	NOTE_COPY,           // a = src inst, b = dst slot
	NOTE_NORMALISED,     // an op/action was rewritten to its nearest legal form; a = reason
	NOTE_BUDGET,         // callback budget exceeded (C04): the API call was abandoned
	NOTE_FORK_BEGIN,     // a = phase (0 = copy runs suffix, 1 = original runs suffix), b = inst
	NOTE_FORK_END,
	NOTE_APPEND_RESULT,  // a = returned bool of plan.change/changeWith, b = origin, c = dest
	NOTE_EXCLUDED_ACTIVATION_VETO,
	NOTE_SYNC,           // replica sync: a = destination fed, b = 1 replayEnter / 0 replayTransition, c = return value
	NOTE_REPLAY_RESULT,  // a = return value
	NOTE_CANARY,         // a = 1 ok / 0 corrupted (serial buffer canaries)
	NOTE_ALLOC,          // allocation observed during an FFSM2 call; a = count (saturated)
	NOTE_EVENT_ADDR,     // a = 1 if callback saw &event == address passed by the harness
	NOTE_ACCESS,         // a = 1 if this == &machine.access<St>()
	NOTE_OVERFLOW,
	NOTE_ITER,           // external iterate-and-remove: a = 1 if the iteration visited exactly the pre-op plan in order, b = visited count
	NOTE_BUFEQ,          // a = (buf0 == buf1), b = (buf0 != buf1), c = bytes equal
	NOTE_BUFACT,
	NOTE_ITER_REMOVE,    // external iterate-and-remove: the task at index a of the plan as it is at this moment was removed through the iterator
	NOTE_HELD,           // a = the CPlan, b = the Plan obtained before the operation iterate exactly what a fresh plan() shows after it
	NOTE_AFTER,          // observation right after the actions of a callback (state = callback state, d = method): req + machine view         // a, b = activity (active state or NOID) of the savers behind buffers 0 and 1
};

struct TrV {  // a transition as shown by the library
	uint8_t valid = 0, origin = NOID, dest = NOID, hasPay = 0, seed = 0, exact = 1, aligned = 1, pad = 0;
};
struct TaskV {
	uint8_t origin = NOID, dest = NOID, hasPay = 0, seed = 0, exact = 1, aligned = 1;
};
inline bool operator==(const TrV& a, const TrV& b) {
	return a.valid == b.valid && (!a.valid || (a.origin == b.origin && a.dest == b.dest && a.hasPay == b.hasPay && (!a.hasPay || a.seed == b.seed)));
}
inline bool operator==(const TaskV& a, const TaskV& b) {
	return a.origin == b.origin && a.dest == b.dest && a.hasPay == b.hasPay && (!a.hasPay || a.seed == b.seed);
}

// plan observer consistency flags
enum PlanFlag : uint8_t {
	PF_BOOL = 1,         // operator bool of the plan
	PF_FIRSTLAST_OK = 2, // first()/last() equal the ends of the iterated sequence (or plan empty)
	PF_VIEWS_EQUAL = 4,  // Plan, const Plan (CIterator) and CPlan iterate the same sequence
	PF_CTL_EQUAL = 8,    // control.plan() iterates the same sequence as machine.plan()
	PF_TRUNC = 16,       // snapshot truncated by the safety limit (iteration did not terminate within capacity+1)
};

struct Ev {
	uint8_t kind = 0, inst = 0, op = 0, state = NOID, method = 0, who = WHO_SELF, ctl = 0;
	uint8_t a = 0, b = 0, c = 0, d = 0;
	// control view (EV_CB)
	uint8_t sid = NOID, ctxOk = 1, evtOk = 1, thisOk = 1;
	uint8_t cprevOk = 1;               // control.previousTransitions() shows what machine.previousTransition() shows
	uint8_t tmplOk = 1, ctmplOk = 1;   // templated forms (isActive<T>(), stateId<T>()) agree with the id forms: machine / control
	uint8_t live = 0;   // the machine view below was taken from a constructed, not abandoned instance
	uint8_t hasLocal = 0;              // localSum is valid (EV_BEGIN / EV_END)
	uint16_t local = 0;                // EV_CB: the callback counter kept in a data member of the object whose callback this is (after this delivery)
	uint32_t localSum = 0;             // hash over the data members of every state object, read through access<T>()
	Mask cAct = 0;
	TrV req, pend, cur;
	// machine view (EV_CB, EV_BEGIN, EV_END)
	uint8_t mAct = NOID, mManual = 2 /* 0 inactive, 1 active, 2 n/a */, planFlags = 0, hasSerial = 0;
	Mask mActMask = 0;
	TrV prev;
	uint32_t planOff = 0, planLen = 0;
	uint16_t serial = 0;
	TrV mreq;  // unused by library observers; reserved
};

struct Info {  // static description of the zoo member the case ran on
	uint8_t cfg = 0, N = 0, L = 0, head = 0, manual = 0, payAlign = 0, ctx = 0;
	uint16_t paySize = 0;
	uint16_t cap = 0;
	uint8_t inj[128] = {};   // injections per state
	uint8_t headInj = 0;
	Mask bare = 0;      // states that do not define every callback (twins)
	uint16_t defMask[128] = {};   // per state: which methods (bit = Meth) the state class defines
	uint8_t hasPlans = 0, hasSerial = 0, hasHistory = 0, hasLog = 0, verbose = 0;
	uint16_t serialBits = 0;
	uint32_t instSize = 0;
	uint8_t scenario = 0, fill = 0, loggerAtCtor = 0;
};

static constexpr uint32_t EV_CAP = 1u << 15;
static constexpr uint32_t POOL_CAP = 1u << 18;

struct Trace {
	Info info;
	uint32_t n = 0, poolN = 0;
	bool overflow = false;
	bool budgetAbort = false;   // an FFSM2 call exceeded the callback budget (64*L+64) and was abandoned
	uint8_t budgetState = NOID, budgetMethod = 0;
	uint32_t normalised = 0, excludedVeto = 0;
	Ev* ev = nullptr;
	TaskV* pool = nullptr;
	Trace() { ev = new Ev[EV_CAP]; pool = new TaskV[POOL_CAP]; }
	~Trace() { delete[] ev; delete[] pool; }
	Trace(const Trace&) = delete;
	Trace& operator=(const Trace&) = delete;
	void reset() { n = 0; poolN = 0; overflow = false; budgetAbort = false; normalised = 0; excludedVeto = 0; }
};

struct RunOpts {
	bool uninit = false;       // construct instances in malloc'ed, uninitialised memory (valgrind)
	int fillOverride = -1;     // >= 0: use this fill byte instead of the case's
	int loggerMode = 0;        // 0: as the case says; 1: never attach; 2: always attached from construction
};

// ---- digest: canonical hash of everything observable ---------------------------------------
inline void hmix(uint64_t& h, uint64_t v) { h ^= v + 0x9e3779b97f4a7c15ull + (h << 6) + (h >> 2); }
inline void htr(uint64_t& h, const TrV& t) { hmix(h, t.valid); if (t.valid) { hmix(h, t.origin); hmix(h, t.dest); hmix(h, t.hasPay); if (t.hasPay) { hmix(h, t.seed); hmix(h, t.exact); } } }

// what the digest covers beyond the core (callbacks, control view, activity): feature-dependent observers are included only
// when the scenario uses that feature
enum DigestBits { DGB_LOG = 1, DGB_PLAN = 2, DGB_PREV = 4, DGB_SERIAL = 8 };
enum DigestMode { DG_ALL = 15, DG_NOLOG = 14, DG_CORE = 0 };
inline uint64_t digest(const Trace& t, int mask) {
	uint64_t h = 0x12345;
	const bool withLog = (mask & DGB_LOG) != 0;
	for (uint32_t i = 0; i < t.n; ++i) {
		const Ev& e = t.ev[i];
		if (!withLog && e.kind == EV_LOG) continue;
		if (!withLog && (e.kind == EV_BEGIN || e.kind == EV_END) && e.method == OP_LOGGER) continue;
		if (!withLog && e.kind == EV_NOTE && e.method == NOTE_CONSTRUCT) { hmix(h, e.kind); hmix(h, e.inst); hmix(h, e.method); continue; }
		if (!(mask & DGB_SERIAL) && e.kind == EV_NOTE && (e.method == NOTE_CANARY || e.method == NOTE_BUFEQ || e.method == NOTE_BUFACT)) continue;
		if (!(mask & DGB_PLAN) && e.kind == EV_NOTE && e.method == NOTE_HELD) continue;   // exists only in builds with plans
		hmix(h, e.kind); hmix(h, e.inst); hmix(h, e.state); hmix(h, e.method); hmix(h, e.who); hmix(h, e.ctl);
		hmix(h, e.a); hmix(h, e.b); hmix(h, e.c);
		if (e.kind == EV_CB) { hmix(h, e.sid); hmix(h, e.ctxOk); hmix(h, e.evtOk); hmix(h, uint64_t(e.cAct)); hmix(h, uint64_t(e.cAct >> 64)); htr(h, e.req); htr(h, e.pend); htr(h, e.cur); hmix(h, e.local); }
		if (e.hasLocal) hmix(h, e.localSum);
		if (e.kind == EV_NOTE && e.method == NOTE_AFTER) htr(h, e.req);
		if (e.kind == EV_CB || e.kind == EV_BEGIN || e.kind == EV_END || (e.kind == EV_NOTE && e.method == NOTE_AFTER)) {
			hmix(h, e.mAct); hmix(h, e.mManual); hmix(h, uint64_t(e.mActMask)); hmix(h, uint64_t(e.mActMask >> 64));
			if (mask & DGB_PREV) htr(h, e.prev);
			if (mask & DGB_SERIAL) { hmix(h, e.hasSerial); hmix(h, e.serial); }
			if (mask & DGB_PLAN) {
				hmix(h, e.planFlags); hmix(h, e.planLen);
				for (uint32_t k = 0; k < e.planLen; ++k) { const TaskV& q = t.pool[e.planOff + k]; hmix(h, q.origin); hmix(h, q.dest); hmix(h, q.hasPay); if (q.hasPay) hmix(h, q.seed); }
			}
		}
	}
	return h;
}

// ---- human-readable rendering --------------------------------------------------------------
inline std::string trStr(const TrV& t) {
	if (!t.valid) return "-";
	char b[64];
	if (t.hasPay) snprintf(b, sizeof b, "%d>%d p%u%s%s", t.origin == NOID ? -1 : t.origin, t.dest, t.seed, t.exact ? "" : "!corrupt", t.aligned ? "" : "!misaligned");
	else snprintf(b, sizeof b, "%d>%d", t.origin == NOID ? -1 : t.origin, t.dest);
	return b;
}
inline std::string planStr(const Trace& t, const Ev& e) {
	std::string s = "[";
	for (uint32_t k = 0; k < e.planLen && k < 12; ++k) {
		const TaskV& q = t.pool[e.planOff + k];
		char b[48];
		if (q.hasPay) snprintf(b, sizeof b, "%s%u>%u p%u", k ? " " : "", q.origin, q.dest, q.seed);
		else snprintf(b, sizeof b, "%s%u>%u", k ? " " : "", q.origin, q.dest);
		s += b;
	}
	if (e.planLen > 12) s += " ...";
	return s + "]";
}
inline std::string renderEv(const Trace& t, uint32_t i) {
	const Ev& e = t.ev[i];
	char b[400];
	auto sid = [](uint8_t s) { return s == NOID ? -1 : int(s); };
	switch (e.kind) {
	case EV_BEGIN: case EV_END:
		snprintf(b, sizeof b, "%4u %s i%u op%u %s(a=%u,b=%u,p=%u) | active=%d manual=%u prev=%s plan=%s%s", i, e.kind == EV_BEGIN ? "BEGIN" : "END  ", e.inst, e.op, opName(e.method), e.a, e.b, e.c,
			sid(e.mAct), e.mManual, trStr(e.prev).c_str(), planStr(t, e).c_str(), e.hasSerial ? " ser" : "");
		break;
	case EV_CB:
		snprintf(b, sizeof b, "%4u   CB  i%u s%d.%s who=%d | sid=%d active=%d req=%s pend=%s cur=%s plan=%s", i, e.inst, sid(e.state), methName(e.method), e.who == WHO_SELF ? -1 : e.who,
			sid(e.sid), sid(e.mAct), trStr(e.req).c_str(), trStr(e.pend).c_str(), trStr(e.cur).c_str(), planStr(t, e).c_str());
		break;
	case EV_ACT:
		snprintf(b, sizeof b, "%4u     ACT i%u s%d %s(%u,%u,p%u)", i, e.inst, sid(e.state), actName(e.method), e.a, e.b, e.c);
		break;
	case EV_LOG:
		snprintf(b, sizeof b, "%4u     LOG i%u kind=%u a=%d b=%d", i, e.inst, e.method, sid(e.a), sid(e.b));
		break;
	default:
		if (e.method == NOTE_AFTER) snprintf(b, sizeof b, "%4u     AFTER i%u | active=%d req=%s plan=%s", i, e.inst, sid(e.mAct), trStr(e.req).c_str(), planStr(t, e).c_str());
		else snprintf(b, sizeof b, "%4u   NOTE i%u kind=%u a=%u b=%u c=%u", i, e.inst, e.method, e.a, e.b, e.c);
	}
	return b;
}
inline std::string renderTrace(const Trace& t, uint32_t maxEv = 400) {
	std::string s;
	char b[200];
	const Info& f = t.info;
	snprintf(b, sizeof b, "machine cfg=%u N=%u head=%u manual=%u L=%u cap=%u pay=%u/%u ctx=%u plans=%u serial=%u history=%u log=%u verbose=%u\n",
		f.cfg, f.N, f.head, f.manual, f.L, f.cap, f.paySize, f.payAlign, f.ctx, f.hasPlans, f.hasSerial, f.hasHistory, f.hasLog, f.verbose);
	s += b;
	for (uint32_t i = 0; i < t.n && i < maxEv; ++i) { s += renderEv(t, i); s += "\n"; }
	if (t.n > maxEv) s += "  ...\n";
	return s;
}

}  // namespace vf
