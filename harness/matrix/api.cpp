// API-instantiating program for the C19 feature matrix.
// Uses only documented API; every optional feature is used iff its switch is on.
// Variant selection: -DVF_DEV uses development/ffsm2/machine_dev.hpp, otherwise the shipped header.
#ifdef VF_DEV
#include <ffsm2/machine_dev.hpp>
#else
#include <ffsm2/machine.hpp>
#endif

#include <array>
#include <utility>

#ifdef FFSM2_ENABLE_ALL
#define VF_PLANS 1
#define VF_SERIAL 1
#define VF_HISTORY 1
#else
#ifdef FFSM2_ENABLE_PLANS
#define VF_PLANS 1
#endif
#ifdef FFSM2_ENABLE_SERIALIZATION
#define VF_SERIAL 1
#endif
#ifdef FFSM2_ENABLE_TRANSITION_HISTORY
#define VF_HISTORY 1
#endif
#endif
#if defined(FFSM2_ENABLE_LOG_INTERFACE) || defined(FFSM2_ENABLE_VERBOSE_DEBUG_LOG)
#define VF_LOG 1
#endif

namespace {

// every switch that is in effect contributes its own bit to the feature tag (the tag keeps differently configured translation units from
// sharing one set of mangled names for types whose layout depends on the switches)
constexpr int tagBits(unsigned v) { return v == 0 ? 0 : int(v & 1u) + tagBits(v >> 1); }
constexpr int switchesInEffect() {
	return 0
#ifndef FFSM2_DISABLE_TYPEINDEX
		+ 1
#endif
#ifdef FFSM2_ENABLE_DEBUG_STATE_TYPE
		+ 1
#endif
#ifdef FFSM2_ENABLE_PLANS
		+ 1
#endif
#ifdef FFSM2_ENABLE_SERIALIZATION
		+ 1
#endif
#ifdef FFSM2_ENABLE_STRUCTURE_REPORT
		+ 1
#endif
#ifdef FFSM2_ENABLE_TRANSITION_HISTORY
		+ 1
#endif
#ifdef FFSM2_ENABLE_VERBOSE_DEBUG_LOG
		+ 1
#endif
#ifdef FFSM2_ENABLE_LOG_INTERFACE
		+ 1
#endif
		;
}
static_assert(tagBits(static_cast<unsigned>(ffsm2::FFSM2_FEATURE_TAG)) == switchesInEffect(), "a switch that is in effect is missing from FFSM2_FEATURE_TAG");

struct Ctx { int n = 0; };
struct Pay { int a; short b; };
struct Ev  { int v; };

template <typename TConfig>
struct Prog {
	using M = ffsm2::MachineT<TConfig>;
	struct R; struct A; struct B; struct C; struct D;
	using FSM = typename M::template Root<R, A, B, C, D>;

	struct Base : FSM::State {
		using GuardControl = typename FSM::GuardControl;
		using FullControl  = typename FSM::FullControl;
		using ConstControl = typename FSM::ConstControl;
	};

	struct R : FSM::State {
#ifdef VF_PLANS
		void planSucceeded(typename FSM::FullControl& c) { c.changeTo(0); }
		void planFailed   (typename FSM::FullControl& c) { c.changeTo(1); }
#endif
	};
	struct A : FSM::State {
		void entryGuard(typename FSM::GuardControl& c) { if (c.pendingTransition().destination == 7) c.cancelPendingTransition(); (void) c.currentTransition(); }
		void update(typename FSM::FullControl& c) {
			(void) c.stateId(); (void) c.context(); (void) c._(); (void) c.request(); (void) c.isActive(1);
			c.changeTo(1);
#ifdef VF_PLANS
			c.succeed(); c.fail(2); (void) c.plan().change(1, 2);
#endif
		}
		void react(const Ev&, typename FSM::FullControl& c) { c.template changeTo<B>(); }
		void query(Ev& e, typename FSM::ConstControl& c) const {
			e.v += c.stateId(); (void) c.context(); (void) c.request(); (void) c.isActive(0);
#ifdef VF_PLANS
			{ auto p = c.plan(); for (auto it = p.begin(); it; ++it) e.v += it->origin; }
#endif
		}
	};
	struct B : FSM::State {
		void exitGuard(typename FSM::GuardControl& c) { c.changeTo(2); (void) c.template isActive<A>(); (void) c.request(); }
		void enter(typename FSM::State::PlanControl& c) {
			(void) c.currentTransition(); (void) c.template stateId<C>(); (void) c._();
#ifdef VF_PLANS
			{ auto p = c.plan(); for (auto it = p.begin(); it; ++it) if (it->origin == 2) it.remove(); }
			{ const typename FSM::State::PlanControl& cc = c; auto cp = cc.plan(); (void) static_cast<bool>(cp); }
#endif
#ifdef VF_HISTORY
			(void) c.previousTransitions();
#endif
		}
		void reenter(typename FSM::State::PlanControl&) {}
		void preUpdate(typename FSM::FullControl& c) { c.template changeTo<C>(); }
		void postUpdate(typename FSM::FullControl&) {}
		void preReact(const Ev&, typename FSM::FullControl&) {}
		void postReact(const Ev&, typename FSM::FullControl& c) {
#ifdef VF_PLANS
			c.template succeed<A>(); c.template fail<C>(); (void) c.plan().template change<A>(1);
#endif
			(void) c;
		}
		void exit(typename FSM::State::PlanControl&) {}
	};
	// a state with two injected bases: with >= 2 injections the state itself must define every callback
	struct Inj1 : FSM::State { void enter(typename FSM::State::PlanControl&) {} void update(typename FSM::FullControl&) {} };
	struct Inj2 : FSM::State { void exit(typename FSM::State::PlanControl&) {} void entryGuard(typename FSM::GuardControl&) {} };
	struct C : FSM::template StateT<Inj1, Inj2> {
		using GuardControl = typename FSM::GuardControl; using FullControl = typename FSM::FullControl;
		using ConstControl = typename FSM::ConstControl; using PlanControl = typename FSM::State::PlanControl;
		void entryGuard(GuardControl&) {} void enter(PlanControl&) {} void reenter(PlanControl&) {}
		void preUpdate(FullControl&) {} void update(FullControl&) {} void postUpdate(FullControl&) {}
		template <typename E> void preReact(const E&, FullControl&) {}
		template <typename E> void react(const E&, FullControl&) {}
		template <typename E> void postReact(const E&, FullControl&) {}
		template <typename E> void query(E&, ConstControl&) const {}
		void exitGuard(GuardControl&) {} void exit(PlanControl&) {}
	};

	// callbacks need not return void: the library never looks at what they return
	struct D : FSM::State {
		bool entryGuard(typename FSM::GuardControl&) { return true; }
		int  enter(typename FSM::State::PlanControl&) { return 1; }
		bool update(typename FSM::FullControl& c) { c.changeTo(0); return false; }
		bool exitGuard(typename FSM::GuardControl&) { return true; }
		long exit(typename FSM::State::PlanControl&) { return 0; }
	};

	template <typename TInstance>
	static int drive(TInstance& m) {
		int r = 0;
		m.update();
		m.react(Ev{1});
		Ev e{0}; m.query(e); r += e.v;
		m.changeTo(1);
		m.template changeTo<C>();
		m.immediateChangeTo(0);
		m.template immediateChangeTo<D>(); m.update();
		m.template immediateChangeTo<B>();
		r += m.activeStateId();
		r += m.isActive(0) ? 1 : 0;
		r += m.template isActive<A>() ? 1 : 0;
		r += static_cast<int>(FSM::template stateId<B>());
		(void) m.template access<A>();
		(void) m.context();
		{ const TInstance& cm = m; (void) cm.template access<C>(); (void) cm.context(); r += cm.template isActive<B>() ? 1 : 0; }
		{ TInstance moved{static_cast<TInstance&&>(m)}; r += moved.activeStateId(); }
#ifdef VF_PLANS
		(void) m.plan().change(0, 1);
		(void) m.plan().template change<A, B>();
		m.succeed(0); m.fail(1); m.template succeed<A>(); m.template fail<B>();
		for (auto it = m.plan().begin(); it; ++it) r += it->destination;
		{ auto p = m.plan(); if (p) { r += p.first().origin + p.last().origin; } p.clear(); }
		{ const TInstance& cm = m; auto cp = cm.plan(); if (cp) r += cp.first().origin; }
#endif
#ifdef VF_SERIAL
		typename TInstance::SerialBuffer buf;
		m.save(buf); m.load(buf);
		r += buf.data()[0];
#endif
#ifdef VF_HISTORY
		r += m.previousTransition().destination;
		r += m.replayTransition(1) ? 1 : 0;
#endif
		return r;
	}

	template <typename TInstance, typename TPay>
	static int drivePayload(TInstance& m, const TPay& p) {
		int r = 0;
		m.changeWith(1, p);
		m.template changeWith<B>(p);
		{ struct Local { static void f(typename Prog::FSM::FullControl& c, const TPay& q) { c.changeWith(1, q); c.template changeWith<B>(q); } }; (void) &Local::f; }
		m.immediateChangeWith(2, p);
		m.template immediateChangeWith<A>(p);
#ifdef VF_PLANS
		(void) m.plan().changeWith(0, 1, p);
		(void) m.plan().template changeWith<A>(1, p);
		(void) m.plan().template changeWith<A, B>(p);
		for (auto it = m.plan().begin(); it; ++it) r += it->payload() ? 1 : 0;
#endif
#ifdef VF_HISTORY
		r += m.previousTransition().payload() ? 1 : 0;
#endif
		return r;
	}
};

#ifdef VF_LOG
template <typename TConfig>
struct Log : ffsm2::LoggerInterfaceT<ffsm2::FFSM2_FEATURE_TAG, typename TConfig::Context> {
	using Base = ffsm2::LoggerInterfaceT<ffsm2::FFSM2_FEATURE_TAG, typename TConfig::Context>;
	int n = 0;
	void recordMethod(const typename Base::Context&, const ffsm2::StateID, const ffsm2::Method) override { ++n; }
	void recordTransition(const typename Base::Context&, const ffsm2::StateID, const ffsm2::StateID) override { ++n; }
#ifdef VF_PLANS
	void recordTaskStatus(const typename Base::Context&, const ffsm2::StateID, const ffsm2::StatusEvent) override { ++n; }
	void recordPlanStatus(const typename Base::Context&, const ffsm2::StatusEvent) override { ++n; }
#endif
	void recordCancelledPending(const typename Base::Context&, const ffsm2::StateID) override { ++n; }
};
#endif

}

int main() {
	int r = 0;
	{	// automatic activation, empty context, no payload
		using Cfg = ffsm2::Config;
		using P = Prog<Cfg>;
		P::FSM::Instance m;
		r += P::drive(m);
#ifdef VF_LOG
		Log<Cfg> log; m.attachLogger(&log); m.update(); m.attachLogger(nullptr); r += log.n;
		P::FSM::Instance m2{&log}; m2.update();
#endif
		P::FSM::Instance copy{m}; copy.update();
	}
	{	// manual activation, value context, payload, limits
		using Cfg = ffsm2::Config::ContextT<Ctx>::ManualActivation::SubstitutionLimitN<3>::PayloadT<Pay>
#ifdef VF_PLANS
			::TaskCapacityN<5>
#endif
			;
		using P = Prog<Cfg>;
		P::FSM::Instance m{Ctx{}};
		r += m.isActive() ? 1 : 0;
		m.enter();
		r += P::drive(m);
		r += P::drivePayload(m, Pay{1, 2});
#ifdef VF_HISTORY
		m.exit(); m.replayEnter(2);
#endif
		m.exit();
	}
	{	// reference context
		using Cfg = ffsm2::Config::ContextT<Ctx&>::PayloadT<Pay>;
		using P = Prog<Cfg>;
		Ctx ctx;
		P::FSM::Instance m{ctx};
		r += P::drive(m);
		r += P::drivePayload(m, Pay{3, 4});
	}
	{	// context and payload types that live in namespace std (argument-dependent lookup then also searches std for every unqualified call
		// the library makes with them)
		using SCtx = std::pair<int, int>; using SPay = std::array<unsigned char, 8>;
		using Cfg = ffsm2::Config::ContextT<SCtx>::PayloadT<SPay>;
		using P = Prog<Cfg>;
		P::FSM::Instance m{SCtx{1, 2}};
		r += P::drive(m);
		r += P::drivePayload(m, SPay{{1, 2, 3}});
		SCtx lv{3, 4};
		P::FSM::Instance m2{lv};
		P::FSM::Instance copy{m2}; copy.update();
	}
	{	// pointer context, headless
		using Cfg = ffsm2::Config::ContextT<Ctx*>::ManualActivation;
		using M = ffsm2::MachineT<Cfg>;
		struct X; struct Y;
		using FSM = M::PeerRoot<X, Y>;
		struct X : FSM::State { void update(FSM::FullControl& c) { c.changeTo<Y>(); } };
		struct Y : FSM::State {};
		Ctx ctx;
		FSM::Instance m{&ctx};
		m.setContext(&ctx);
		m.enter(); m.update(); r += m.activeStateId(); m.exit();
	}
	// the name table of the logging helpers covers every enumerator whatever the switches are
	for (int k = 1; k < static_cast<int>(ffsm2::Method::COUNT); ++k) {
		const char* const name = ffsm2::methodName(static_cast<ffsm2::Method>(k));
		if (!name || !name[0]) return 2;
		r += name[0];
	}
	return r == 12345 ? 1 : 0;
}
