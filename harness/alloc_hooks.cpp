// Allocation counter for the plain (gcc) build: every malloc/calloc/realloc/free and operator new/delete issued
// while an FFSM2 call is on the stack is counted. Linked with -Wl,--wrap=malloc,... so that calls from the
// (header-only, hence compiled-in) FFSM2 code are intercepted.
#include <cstddef>
#include <cstdint>
#include <cstdlib>
#include <new>

namespace vf { extern volatile bool g_inCall; extern volatile uint32_t g_allocs; }

extern "C" {
void* __real_malloc(size_t);
void* __real_calloc(size_t, size_t);
void* __real_realloc(void*, size_t);
void __real_free(void*);
void* __wrap_malloc(size_t n) { if (vf::g_inCall) ++vf::g_allocs; return __real_malloc(n); }
void* __wrap_calloc(size_t a, size_t b) { if (vf::g_inCall) ++vf::g_allocs; return __real_calloc(a, b); }
void* __wrap_realloc(void* p, size_t n) { if (vf::g_inCall) ++vf::g_allocs; return __real_realloc(p, n); }
void __wrap_free(void* p) { if (vf::g_inCall && p) ++vf::g_allocs; __real_free(p); }
}

void* operator new(std::size_t n) { if (vf::g_inCall) ++vf::g_allocs; void* p = __real_malloc(n ? n : 1); if (!p) std::abort(); return p; }
void* operator new[](std::size_t n) { if (vf::g_inCall) ++vf::g_allocs; void* p = __real_malloc(n ? n : 1); if (!p) std::abort(); return p; }
void operator delete(void* p) noexcept { if (vf::g_inCall && p) ++vf::g_allocs; __real_free(p); }
void operator delete[](void* p) noexcept { if (vf::g_inCall && p) ++vf::g_allocs; __real_free(p); }
void operator delete(void* p, std::size_t) noexcept { if (vf::g_inCall && p) ++vf::g_allocs; __real_free(p); }
void operator delete[](void* p, std::size_t) noexcept { if (vf::g_inCall && p) ++vf::g_allocs; __real_free(p); }
