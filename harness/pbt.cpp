// rapidcheck driver + replayer for the zoo harness.
//   vfzoo pbt     --prop K [--profile P] [--out DIR] [--stats FILE] [--cfgs a,b,c]     (RC_PARAMS configures rapidcheck)
//   vfzoo replay  --prop K FILE...         exit 1 if a violation of K reproduces
//   vfzoo show    FILE                     render the case and its trace
//   vfzoo emit    --count N --out FILE     write N generated cases (length-prefixed) for corpus differentials
//   vfzoo digest  --mode M FILE            print one digest per case of an emitted corpus
#include "eval.hpp"
#include <rapidcheck.h>
#include <algorithm>
#include <cstdlib>
#include <fstream>
#include <map>
#include <set>
#include <sstream>
#include <unordered_set>
#include <csignal>
#include <fcntl.h>
#include <unistd.h>

using namespace vf;

namespace {

struct Profile {
	const char* name;
	int opW[OP_COUNT];
	int actW[ACT_COUNT];
	int scW[3];
	int maxOps, maxActs;
	int payPct;      // % of requests carrying a payload
	int chainPct;    // % of actions chained to the next one
	int refPct;      // % of cases in which external requests may hand over previousTransition()'s payload by reference
	int echoPct;     // % of operands / action operands that repeat the previous one (coinciding destinations are where de-duplication logic lives)
};

//                      upd rea qry chg imm pApp pClr pRem suc fail ent ext sav lod rpl cpy rec log setCtx move
//                      actions: none req cancel succ fail succId failId pApp pClr pRem req+ req& logger machine.report machine.req
const Profile kProfiles[] = {
	{"general",        {20, 8,  4,  12, 10, 8,   2,   3,   5,  3,   3,  3,  4,  5,  4,  2,  2,  2, 2, 2},
	                   {40, 18, 10, 6, 3, 4, 3, 8, 2, 3, 4, 4, 1, 2, 4}, {8, 1, 1}, 14, 14, 45, 15, 50, 25},
	{"guards",         {14, 6,  1,  14, 26, 2,   0,   0,   2,  1,   3,  2,  0,  1,  2,  0,  1,  0, 1, 1},
	                   {22, 34, 26, 1, 1, 1, 1, 2, 0, 0, 14, 8, 0, 1, 6}, {9, 1, 0}, 12, 18, 40, 30, 50, 30},
	{"plans",          {30, 8,  1,  4,  3,  24,  2,   5,   8,  5,   2,  2,  1,  2,  1,  1,  1,  1, 1, 1},
	                   {26, 8, 4, 16, 8, 8, 5, 18, 2, 5, 2, 2, 0, 6, 2}, {9, 0, 1}, 18, 14, 40, 20, 30, 20},
	{"serial",         {10, 4,  1,  6,  16, 4,   1,   1,   1,  1,   6,  8,  16, 20, 2,  2,  2,  1, 1, 1},
	                   {50, 18, 8, 3, 2, 2, 2, 6, 1, 2, 2, 2, 0, 1, 6}, {1, 0, 0}, 14, 8, 30, 10, 30, 20},
	{"replica",        {18, 6,  1,  12, 18, 6,   1,   1,   4,  2,   5,  4,  0,  0,  0,  0,  0,  0, 0, 0},
	                   {28, 30, 22, 4, 2, 2, 2, 6, 1, 1, 10, 8, 0, 1, 5}, {0, 1, 0}, 12, 16, 40, 25, 50, 30},
	{"fork",           {20, 6,  2,  12, 10, 8,   1,   2,   4,  2,   3,  3,  3,  3,  3,  14, 0,  2, 1, 2},
	                   {36, 20, 10, 6, 3, 4, 3, 8, 2, 3, 4, 3, 1, 2, 3}, {0, 0, 1}, 12, 12, 45, 15, 40, 20},
	{"logging",        {20, 8,  3,  10, 10, 10,  1,   2,   6,  3,   3,  3,  1,  2,  2,  1,  2,  12, 1, 3},
	                   {30, 18, 14, 8, 4, 5, 3, 10, 2, 3, 3, 2, 9, 3, 3}, {1, 0, 0}, 14, 14, 40, 20, 30, 20},
	{"phases",         {34, 22, 12, 8,  4,  6,   1,   1,   3,  2,   2,  2,  0,  1,  1,  0,  1,  1, 2, 1},
	                   {34, 24, 6, 8, 5, 5, 4, 8, 2, 2, 3, 3, 1, 2, 4}, {1, 0, 0}, 12, 12, 40, 15, 30, 20},
	{"neutral",        {30, 14, 8,  20, 18, 0,   0,   0,   0,  0,   3,  3,  0,  0,  0,  0,  0,  0, 1, 1},
	                   {40, 36, 24, 0, 0, 0, 0, 0, 0, 0, 10, 0, 0, 0, 4}, {1, 0, 0}, 12, 14, 0, 20, 0, 20},
	// scenarios that use exactly one optional feature (C19: switching on any *other* feature must not change them)
	{"plans_only",     {30, 8,  2,  8,  6,  24,  2,   5,   8,  5,   3,  4,  0,  0,  0,  0,  0,  0, 0, 0},
	                   {26, 12, 6, 14, 8, 8, 5, 16, 2, 5, 3, 0, 0, 3, 0}, {1, 0, 0}, 16, 14, 40, 20, 0, 20},
	{"serial_only",    {16, 6,  2,  10, 18, 0,   0,   0,   0,  0,   3,  4,  20, 24, 0,  0,  0,  0, 0, 0},
	                   {50, 26, 14, 0, 0, 0, 0, 0, 0, 0, 5, 0, 0, 0, 0}, {1, 0, 0}, 14, 10, 30, 15, 0, 20},
	{"history_only",   {22, 8,  2,  14, 20, 0,   0,   0,   0,  0,   3,  4,  0,  0,  14, 0,  0,  0, 0, 0},
	                   {34, 32, 24, 0, 0, 0, 0, 0, 0, 0, 8, 8, 0, 0, 0}, {3, 2, 0}, 14, 14, 40, 20, 50, 25},
};
const int kProfileCount = sizeof(kProfiles) / sizeof(kProfiles[0]);

template <class T> rc::Gen<T> rng(T lo, T hi) { return rc::gen::resize(rc::kNominalSize, rc::gen::inRange<T>(lo, hi)); }

rc::Gen<int> weighted(const int* w, int n) {
	int total = 0;
	for (int i = 0; i < n; ++i) total += w[i] > 0 ? w[i] : 0;
	return rc::gen::map(rng<int>(0, total), [w, n](int r) {
		for (int i = 0; i < n; ++i) { if (w[i] <= 0) continue; if (r < w[i]) return i; r -= w[i]; }
		return 0;
	});
}

rc::Gen<uint8_t> genPay(int pct) {
	return rc::gen::exec([pct]() -> uint8_t {
		const int r = *rng<int>(0, 100);
		if (r >= pct) return 0;
		const int k = *rng<int>(0, 10);
		if (k == 0) return 255;
		if (k == 1) return 254;
		if (k == 2) return 253;   // all-zero bytes
		return uint8_t(*rng<int>(1, 253));
	});
}

// a state-id operand: mostly small (so that small machines see every id often), sometimes the whole byte range (ids beyond 40 on the big machines)
int genId() {
	const int r = *rng<int>(0, 20);
	if (r < 3) return *rng<int>(0, 256);
	if (r < 6) return *rng<int>(60, 70);   // around the word boundary of a 64-bit mask (ids 64..69 exist on the 70-state member)
	return *rng<int>(0, 40);
}

rc::Gen<Action> genAction(const Profile& p) {
	return rc::gen::exec([&p]() {
		Action a;
		a.kind = uint8_t(*weighted(p.actW, ACT_COUNT));
		if (a.kind != ACT_NONE) {
			a.x = uint8_t(genId());
			a.y = uint8_t(genId());
			if (a.kind == ACT_PLAN_REMOVE) a.x = uint8_t(*rng<int>(0, 256));
			if (a.kind == ACT_REQUEST || a.kind == ACT_REQUEST_REL || a.kind == ACT_PLAN_APPEND) a.pay = *genPay(p.payPct);
			if (a.kind == ACT_REQUEST_FWD) a.y = uint8_t(*rng<int>(0, 8));
			if (a.kind == ACT_REQUEST_REL && *rng<int>(0, 100) < 35) { a.y = uint8_t(64 + *rng<int>(0, 40)); a.kind |= ACT_STICKY; }   // repeat the relative request y - 63 times, then go on
			if (*rng<int>(0, 100) < p.chainPct) a.kind |= ACT_CHAIN;
			if (*rng<int>(0, 100) < 6) a.kind |= ACT_STICKY;
		}
		return a;
	});
}

rc::Gen<Op> genOp(const Profile& p) {
	return rc::gen::exec([&p]() {
		Op op;
		op.code = uint8_t(*weighted(p.opW, OP_COUNT));
		op.inst = uint8_t(*rc::gen::weightedElement<int>({{6, 0}, {2, 1}, {1, 2}}));
		op.a = uint8_t(genId());
		op.b = uint8_t(genId());
		if (op.code == OP_PLAN_REMOVE) op.a = uint8_t(*rng<int>(0, 256));
		if (op.code == OP_REPLAY && *rng<int>(0, 8) == 0) op.a = 0xFF;
		if (op.code == OP_CHANGE || op.code == OP_IMMEDIATE || op.code == OP_PLAN_APPEND) op.pay = *genPay(p.payPct);
		const bool callbacks = op.code == OP_UPDATE || op.code == OP_REACT || op.code == OP_IMMEDIATE || op.code == OP_ENTER || op.code == OP_EXIT ||
			op.code == OP_LOAD || op.code == OP_REPLAY || op.code == OP_RECONSTRUCT;
		if (callbacks) op.acts = *rc::gen::resize(p.maxActs, rc::gen::container<std::vector<Action>>(genAction(p)));
		return op;
	});
}

std::vector<int> g_cfgs;

rc::Gen<Case> genCase(const Profile& p) {
	return rc::gen::exec([&p]() {
		Case c;
		c.cfg = uint8_t(*rc::gen::elementOf(g_cfgs));
		c.fill = *rc::gen::element<uint8_t>(0x00, 0xFF, 0x01, 0xCD, 0xAA, 0x55, 0x80, 0x7F);
		c.scenario = uint8_t(*weighted(p.scW, 3));
		c.flags = uint8_t(*rng<int>(0, 2));
		if (*rng<int>(0, 100) < p.refPct) c.flags |= 2;
		c.ctor = *rc::gen::resize(4, rc::gen::container<std::vector<Action>>(genAction(p)));
		c.ops = *rc::gen::resize(p.maxOps, rc::gen::container<std::vector<Op>>(genOp(p)));
		// operand echo: an operation (action) names the same state as the one before it
		uint8_t lastA = 0; bool have = false;
		for (Op& op : c.ops) {
			const bool names = op.code == OP_CHANGE || op.code == OP_IMMEDIATE || op.code == OP_REPLAY || op.code == OP_SUCCEED || op.code == OP_FAIL || op.code == OP_PLAN_APPEND;
			if (names && have && op.a < 0xF0 && *rng<int>(0, 100) < p.echoPct) op.a = lastA;
			if (names && op.a < 0xF0) { lastA = op.a; have = true; }
			uint8_t lastX = op.a;
			for (Action& a : op.acts) {
				const uint8_t k = a.kind & ACT_KIND_MASK;
				if (k == ACT_REQUEST || k == ACT_REQUEST_FWD || k == ACT_SUCCEED_ID || k == ACT_FAIL_ID || k == ACT_PLAN_APPEND) {
					if (*rng<int>(0, 100) < p.echoPct) a.x = lastX;
					lastX = a.x;
				}
			}
		}
		return c;
	});
}

struct Stats {
	uint64_t evaluations = 0, nontrivialCount = 0, runs = 0, overflow = 0, normalised = 0, excludedVeto = 0;
	uint64_t classCount[64] = {};
	std::unordered_set<uint64_t> distinctNontrivial;
	std::vector<std::string> samples;
	uint64_t cfgCount[32] = {};
};

uint64_t caseHash(const Case& c) { const auto b = encode(c); return fnv(b.data(), b.size()); }

std::string jsonEscape(const std::string& s) {
	std::string o;
	for (char ch : s) { if (ch == '"' || ch == '\\') { o += '\\'; o += ch; } else if (ch == '\n') o += "\\n"; else if (ch == '\t') o += "  "; else if (static_cast<unsigned char>(ch) < 0x20) o += ' '; else o += ch; }
	return o;
}

void writeStats(const std::string& path, const Stats& s, int prop, bool failed, const std::string& replay, const std::string& msg) {
	std::ofstream o(path);
	o << "{\"prop\": " << prop << ", \"evaluations\": " << s.evaluations << ", \"runs\": " << s.runs << ", \"nontrivial\": " << s.nontrivialCount
	  << ", \"distinct_nontrivial\": " << s.distinctNontrivial.size() << ", \"overflow\": " << s.overflow << ", \"normalised\": " << s.normalised
	  << ", \"excluded_activation_veto\": " << s.excludedVeto << ", \"failed\": " << (failed ? "true" : "false")
	  << ", \"replay\": \"" << jsonEscape(replay) << "\", \"message\": \"" << jsonEscape(msg) << "\", \"classes\": {";
	bool first = true;
	for (int i = 0; i < 64; ++i) if (s.classCount[i]) { o << (first ? "" : ", ") << "\"" << i << "\": " << s.classCount[i]; first = false; }
	o << "}, \"cfgs\": {";
	first = true;
	for (int i = 0; i < 32; ++i) if (s.cfgCount[i]) { o << (first ? "" : ", ") << "\"" << i << "\": " << s.cfgCount[i]; first = false; }
	o << "}, \"samples\": [";
	for (size_t i = 0; i < s.samples.size(); ++i) o << (i ? ", " : "") << "\"" << jsonEscape(s.samples[i]) << "\"";
	o << "]}\n";
}

std::string argOf(int argc, char** argv, const char* name, const char* def) {
	for (int i = 2; i + 1 < argc; ++i) if (!strcmp(argv[i], name)) return argv[i + 1];
	return def;
}

// ---- watchdog: a case that does not finish within the alarm is saved (async-signal-safe) and the process exits with 97 ------
uint8_t g_curCase[16384]; size_t g_curLen = 0; char g_hangPath[512] = {0};
void onAlarm(int) {
	if (g_hangPath[0]) { const int fd = open(g_hangPath, O_WRONLY | O_CREAT | O_TRUNC, 0644); if (fd >= 0) { ssize_t r = write(fd, g_curCase, g_curLen); (void) r; close(fd); } }
	_exit(97);
}
void armWatchdog(const Case& c, unsigned secs) {
	const auto b = encode(c);
	g_curLen = b.size() < sizeof g_curCase ? b.size() : sizeof g_curCase;
	memcpy(g_curCase, b.data(), g_curLen);
	alarm(secs);
}

uint32_t armedFor(int prop) { return prop == 0 ? 0xFFFFFFFEu : (1u << prop); }

int cmdPbt(int argc, char** argv) {
	const int prop = atoi(argOf(argc, argv, "--prop", "1").c_str());
	const std::string profName = argOf(argc, argv, "--profile", "general");
	const std::string outDir = argOf(argc, argv, "--out", ".");
	const std::string statsPath = argOf(argc, argv, "--stats", "");
	const std::string tag = argOf(argc, argv, "--tag", "w0");
	const std::string cfgs = argOf(argc, argv, "--cfgs", "");
	const Profile* prof = &kProfiles[0];
	for (int i = 0; i < kProfileCount; ++i) if (profName == kProfiles[i].name) prof = &kProfiles[i];
	g_cfgs.clear();
	if (cfgs.empty()) { for (int i = 0; i < zooCount(); ++i) if (g_zoo[i]) g_cfgs.push_back(i); }
	else { std::stringstream ss(cfgs); std::string tok; while (std::getline(ss, tok, ',')) { const int k = atoi(tok.c_str()); if (k >= 0 && k < zooCount() && g_zoo[k]) g_cfgs.push_back(k); } }
	if (g_cfgs.empty()) { fprintf(stderr, "no zoo member available\n"); return 2; }
	const uint32_t armed = armedFor(prop);
	static EvalCtx X;
	static Stats st;
	static Case lastFail; static std::string lastMsg; static bool haveFail = false;
	snprintf(g_hangPath, sizeof g_hangPath, "%s/hang-C%02d-%s.case", outDir.c_str(), prop, tag.c_str());
	signal(SIGALRM, onAlarm);
	const bool ok = rc::check("property", [&]() {
		const Case c = *genCase(*prof);
		Verdict V;
		armWatchdog(c, 20);
		evaluate(c, armed, V, X);
		alarm(0);
		++st.evaluations; st.runs = X.runs;
		st.normalised += X.main.normalised; st.excludedVeto += X.main.excludedVeto;
		if (X.main.overflow) ++st.overflow;
		for (int i = 0; i < 64; ++i) if ((V.classes >> i) & 1) ++st.classCount[i];
		++st.cfgCount[X.main.info.cfg % 32];
		if (nontrivial(prop, V.classes)) {
			++st.nontrivialCount;
			if (st.distinctNontrivial.size() < 4000000) st.distinctNontrivial.insert(caseHash(c));
			if (st.samples.size() < 3 && (st.nontrivialCount % 97) == 1) st.samples.push_back(render(c) + renderTrace(X.main, 60));
		}
		if (!V.v.empty()) {
			lastFail = c; haveFail = true;
			lastMsg = "C" + std::to_string(V.v[0].prop) + " @" + std::to_string(V.v[0].ev) + ": " + V.v[0].msg;
			RC_FAIL(lastMsg);
		}
	});
	std::string replay;
	if (!ok && haveFail) {
		replay = outDir + "/C" + (prop < 10 ? "0" : "") + std::to_string(prop) + "-" + tag + ".case";
		writeFile(replay.c_str(), encode(lastFail));
		// human-readable rendering next to it
		Verdict V; evaluate(lastFail, armed, V, X);
		std::ofstream o(replay + ".txt");
		o << render(lastFail) << "\n" << renderTrace(X.main, 2000) << "\n";
		for (const auto& v : V.v) o << "VIOLATION C" << v.prop << " at event " << v.ev << ": " << v.msg << "\n";
		printf("FALSIFIED prop=%d replay=%s\n%s\n", prop, replay.c_str(), lastMsg.c_str());
	}
	if (!statsPath.empty()) writeStats(statsPath, st, prop, !ok, replay, lastMsg);
	return ok ? 0 : 1;
}

int cmdReplay(int argc, char** argv) {
	const int prop = atoi(argOf(argc, argv, "--prop", "0").c_str());
	const bool quiet = argOf(argc, argv, "--quiet", "0") == "1";
	const bool uninit = argOf(argc, argv, "--uninit", "0") == "1";
	static EvalCtx X;
	X.uninit = uninit;
	int bad = 0, n = 0;
	for (int i = 2; i < argc; ++i) {
		if (argv[i][0] == '-' && argv[i][1] == '-') { ++i; continue; }
		std::vector<uint8_t> bytes;
		if (!readFile(argv[i], bytes)) { fprintf(stderr, "cannot read %s\n", argv[i]); return 2; }
		const Case c = decode(bytes.data(), bytes.size());
		Verdict V;
		g_hangPath[0] = 0; signal(SIGALRM, onAlarm); alarm(10);
		evaluate(c, armedFor(prop), V, X);
		alarm(0);
		++n;
		if (!V.v.empty()) {
			++bad;
			printf("REPRODUCED %s\n", argv[i]);
			if (!quiet) {
				printf("%s\n%s\n", render(c).c_str(), renderTrace(X.main, 600).c_str());
			}
			for (const auto& v : V.v) printf("VIOLATION C%02d at event %u: %s\n", v.prop, v.ev, v.msg.c_str());
		} else if (!quiet) printf("PASS %s (classes=%llx nontrivial=%d)\n", argv[i], (unsigned long long) V.classes, int(nontrivial(prop, V.classes)));
	}
	printf("replayed=%d violating=%d\n", n, bad);
	return bad ? 1 : 0;
}

int cmdShow(int argc, char** argv) {
	if (argc < 3) return 2;
	std::vector<uint8_t> bytes;
	if (!readFile(argv[2], bytes)) return 2;
	const Case c = decode(bytes.data(), bytes.size());
	static EvalCtx X; Verdict V;
	evaluate(c, 0, V, X);
	printf("%s\n%s\n", render(c).c_str(), renderTrace(X.main, 5000).c_str());
	return 0;
}

int cmdEmit(int argc, char** argv) {
	const int count = atoi(argOf(argc, argv, "--count", "1000").c_str());
	const std::string out = argOf(argc, argv, "--out", "corpus.bin");
	const std::string profName = argOf(argc, argv, "--profile", "general");
	const std::string dir = argOf(argc, argv, "--dir", "");
	const Profile* prof = &kProfiles[0];
	for (int i = 0; i < kProfileCount; ++i) if (profName == kProfiles[i].name) prof = &kProfiles[i];
	g_cfgs.clear();
	const std::string cfgs = argOf(argc, argv, "--cfgs", "");
	if (cfgs.empty()) { for (int i = 0; i < zooCount(); ++i) g_cfgs.push_back(i); }
	else { std::stringstream ss(cfgs); std::string tok; while (std::getline(ss, tok, ',')) g_cfgs.push_back(atoi(tok.c_str())); }
	std::vector<uint8_t> blob;
	int n = 0;
	rc::check("emit", [&]() {
		const Case c = *genCase(*prof);
		const auto b = encode(c);
		if (n < count) {
			blob.push_back(uint8_t(b.size() & 0xFF)); blob.push_back(uint8_t(b.size() >> 8));
			blob.insert(blob.end(), b.begin(), b.end());
			if (!dir.empty()) writeFile((dir + "/seed-" + std::to_string(n) + ".case").c_str(), b);
		}
		++n;
	});
	writeFile(out.c_str(), blob);
	printf("emitted %d cases\n", n < count ? n : count);
	return 0;
}

int cmdDigest(int argc, char** argv) {
	int mode = atoi(argOf(argc, argv, "--mode", "-1").c_str());
	if (mode == 0) mode = DG_ALL; else if (mode == 1) mode = DG_NOLOG; else if (mode == 2) mode = DG_CORE;   // legacy mode numbers
	const std::string maskArg = argOf(argc, argv, "--mask", "");
	if (!maskArg.empty()) mode = atoi(maskArg.c_str());
	if (mode < 0) mode = DG_NOLOG;
	const int prop = atoi(argOf(argc, argv, "--prop", "-1").c_str());
	std::string file;
	for (int i = 2; i < argc; ++i) { if (argv[i][0] == '-' && argv[i][1] == '-') { ++i; continue; } file = argv[i]; }
	std::vector<uint8_t> blob;
	if (!readFile(file.c_str(), blob)) return 2;
	static EvalCtx X;
	size_t i = 0; int n = 0, bad = 0;
	while (i + 2 <= blob.size()) {
		const size_t len = blob[i] | (size_t(blob[i + 1]) << 8); i += 2;
		if (i + len > blob.size()) break;
		const Case c = decode(blob.data() + i, len); i += len;
		Verdict V;
		evaluate(c, prop >= 0 ? armedFor(prop) : 0, V, X);
		printf("%d %016llx %llx %d\n", n, (unsigned long long) digest(X.main, mode), (unsigned long long) V.classes, int(V.v.size()));
		if (!V.v.empty()) { ++bad; printf("# VIOLATION C%02d case %d: %s\n", V.v[0].prop, n, V.v[0].msg.c_str()); }
		++n;
	}
	return bad ? 1 : 0;
}

}  // namespace

int main(int argc, char** argv) {
	if (argc < 2) { fprintf(stderr, "usage: vfzoo pbt|replay|show|emit|digest ...\n"); return 2; }
	const std::string cmd = argv[1];
	if (cmd == "pbt") return cmdPbt(argc, argv);
	if (cmd == "replay") return cmdReplay(argc, argv);
	if (cmd == "show") return cmdShow(argc, argv);
	if (cmd == "emit") return cmdEmit(argc, argv);
	if (cmd == "digest") return cmdDigest(argc, argv);
	return 2;
}
