// Scripted world: zoo of machine types whose every callback records what it observes and then
// executes the next scripted action of the running operation. Only this header includes FFSM2.
#pragma once

#ifdef VF_DEV
#include <ffsm2/machine_dev.hpp>
#else
#include <ffsm2/machine.hpp>
#endif

#include "trace.hpp"

#include <csetjmp>
#include <cstdlib>
#include <new>
#include <optional>
#include <type_traits>
#include <utility>

#ifdef FFSM2_ENABLE_ALL
#define VF_PLANS 1
#define VF_SERIAL 1
#define VF_HISTORY 1
#else
#ifdef FFSM2_ENABLE_PLANS
#define VF_PLANS 1
#endif
#ifdef FFSM2_ENABLE_SERIALIZATION
#define VF_SERIAL 1
#endif
#ifdef FFSM2_ENABLE_TRANSITION_HISTORY
#define VF_HISTORY 1
#endif
#endif
#if defined(FFSM2_ENABLE_LOG_INTERFACE) || defined(FFSM2_ENABLE_VERBOSE_DEBUG_LOG)
#define VF_LOG 1
#endif
#ifdef FFSM2_ENABLE_VERBOSE_DEBUG_LOG
#define VF_VERBOSE 1
#endif

namespace vf {

// ---- payloads ---------------------------------------------------------------------------------
template <unsigned S, unsigned A>
struct alignas(A) Pay { uint8_t b[S]; };

inline uint8_t payByte(uint8_t seed, unsigned i) {
	if (seed == 253) return 0x00;   // the all-zero-bytes payload (indistinguishable from value-initialised storage)
	if (i == 0) return seed;
	if (seed == 255) return 0xFF;
	if (seed == 254) return 0x00;
	return static_cast<uint8_t>(seed * 37u + i * 101u + (seed >> 3) + 7u);
}
template <class P> inline P makePay(uint8_t seed) {
	P p;
	for (unsigned i = 0; i < sizeof(P); ++i) reinterpret_cast<uint8_t*>(&p)[i] = payByte(seed, i);
	return p;
}
template <class P> inline void readPay(const P* p, uint8_t& has, uint8_t& seed, uint8_t& exact, uint8_t& aligned) {
	has = p != nullptr; seed = 0; exact = 1; aligned = 1;
	if (!p) return;
	aligned = (reinterpret_cast<uintptr_t>(p) % alignof(P)) == 0;
	uint8_t raw[sizeof(P)];
	memcpy(raw, reinterpret_cast<const void*>(p), sizeof(P));
	seed = raw[0];
	if (seed == 0) { bool allZero = true; for (unsigned i = 0; i < sizeof(P); ++i) if (raw[i]) allZero = false; if (allZero) seed = 253; }
	for (unsigned i = 0; i < sizeof(P); ++i) if (raw[i] != payByte(seed, i)) exact = 0;
}

struct EvA { int v; };
struct EvB { int v; int w; };
using EvP = const EvA*;   // a pointer-typed event: "no message" is the null value
enum class Sig : int { Tick = 3, Tock = 9 };   // an enum event and a plain int event: scalars are events like any other (the callbacks get the caller's object)
struct Ctx { int tag = 0; EvA mailA{0}; EvB mailB{0, 0}; };   // the mail slots let react()/query() be handed an event stored in the context

// ---- world ------------------------------------------------------------------------------------
struct World {
	Trace* tr = nullptr;
	const Case* cs = nullptr;
	RunOpts opts;
	uint8_t cur = 0, opIdx = 0;
	const Op* op = nullptr;
	size_t actPos = 0;
	const Op* stickyOp = nullptr; size_t stickyPos = 0; unsigned stickyLeft = 0;   // a sticky relative request with y >= 64 repeats (y - 63) times, then the cursor moves on
	bool quiet = false;        // callbacks take no action (replica construction, copies being destroyed ...)
	bool mute = false;         // callbacks are not even recorded (the moved-from husk of a relocation is being destroyed)
	bool hostile = false;      // replica: guards cancel and redirect
	bool activating = false;   // inside constructor / enter()
	uint32_t cbCount = 0, cbBudget = 0;
	sigjmp_buf jb;
	const void* evtAddr = nullptr;
	int forkTarget = -1;
	Ctx ctxObj[3];
	uint8_t ctxOf[3] = {0, 1, 2};  // which ctxObj an instance refers to (copies of ref/ptr contexts share)
	int ctxTag[3] = {100, 101, 102};
};
extern World W;
extern volatile bool g_inCall;      // an FFSM2 call is on the stack (allocation counter armed)
extern volatile uint32_t g_allocs;  // allocations / frees observed while armed

inline Ev& pushEv(uint8_t kind) {
	Trace& t = *W.tr;
	if (t.n + 1 >= EV_CAP) { t.overflow = true; return t.ev[EV_CAP - 1]; }
	Ev& e = t.ev[t.n++];
	e = Ev{};
	e.kind = kind; e.inst = W.cur; e.op = W.opIdx;
	return e;
}
inline void note(uint8_t what, uint8_t a = 0, uint8_t b = 0, uint8_t c = 0) {
	Ev& e = pushEv(EV_NOTE); e.method = what; e.a = a; e.b = b; e.c = c;
}

using P1_1 = Pay<1, 1>; using P2_2 = Pay<2, 2>; using P3_1 = Pay<3, 1>; using P4_4 = Pay<4, 4>; using P8_8 = Pay<8, 8>;
using P16_16 = Pay<16, 16>; using P24_8 = Pay<24, 8>; using P32_32 = Pay<32, 32>; using P12_4 = Pay<12, 4>; using P5_1 = Pay<5, 1>;
using P320_64 = Pay<320, 64>;   // larger than 255 bytes (byte counts do not fit the library's 8-bit index types) and over-aligned beyond max_align_t

// ---- zoo configuration --------------------------------------------------------------------------
template <int CFG> struct ZCfg;

#define VF_ZCFG_BEGIN(ID, NN, HEAD, MANUAL, PAYT, LL, CAPP, CTXK) \
	template <> struct ZCfg<ID> { \
		static constexpr int N = NN; static constexpr bool HAS_HEAD = HEAD; static constexpr bool IS_MANUAL = MANUAL; \
		using Payload = PAYT; static constexpr int L = LL; static constexpr int CAP = CAPP; static constexpr int CTX = CTXK;
#define VF_ZCFG_END static constexpr int kind(int i) { return bare(i) ? 1 : 0; } };

// CAP 0 = library default (= N); CTX 0 empty, 1 value, 2 reference, 3 pointer
VF_ZCFG_BEGIN(0, 3, true, false, void, 4, 0, 0)
	static constexpr int inj(int) { return 0; } static constexpr int headInj() { return 0; } static constexpr bool bare(int) { return false; }
VF_ZCFG_END
VF_ZCFG_BEGIN(1, 4, true, true, P4_4, 3, 5, 1)
	static constexpr int inj(int i) { return i == 1 ? 1 : i == 2 ? 2 : 0; } static constexpr int headInj() { return 0; } static constexpr bool bare(int) { return false; }
VF_ZCFG_END
VF_ZCFG_BEGIN(2, 2, false, false, P1_1, 1, 1, 2)
	static constexpr int inj(int) { return 0; } static constexpr int headInj() { return 0; } static constexpr bool bare(int) { return false; }
VF_ZCFG_END
VF_ZCFG_BEGIN(3, 5, true, false, P8_8, 2, 2, 3)
	static constexpr int inj(int i) { return i == 0 ? 1 : 0; } static constexpr int headInj() { return 1; } static constexpr bool bare(int) { return false; }
VF_ZCFG_END
VF_ZCFG_BEGIN(4, 1, true, true, void, 4, 3, 0)
	static constexpr int inj(int) { return 0; } static constexpr int headInj() { return 0; } static constexpr bool bare(int) { return false; }
VF_ZCFG_END
VF_ZCFG_BEGIN(5, 6, false, true, P2_2, 5, 6, 1)
	static constexpr int inj(int i) { return i == 3 ? 3 : 0; } static constexpr int headInj() { return 0; } static constexpr bool bare(int) { return false; }
VF_ZCFG_END
VF_ZCFG_BEGIN(6, 8, true, false, P16_16, 7, 8, 2)
	static constexpr int inj(int i) { return i == 7 ? 2 : 0; } static constexpr int headInj() { return 2; } static constexpr bool bare(int) { return false; }
VF_ZCFG_END
VF_ZCFG_BEGIN(7, 9, true, true, P3_1, 4, 13, 3)
	static constexpr int inj(int) { return 0; } static constexpr int headInj() { return 0; } static constexpr bool bare(int) { return false; }
VF_ZCFG_END
VF_ZCFG_BEGIN(8, 16, true, false, P24_8, 4, 4, 0)
	static constexpr int inj(int i) { return i == 15 ? 1 : 0; } static constexpr int headInj() { return 0; } static constexpr bool bare(int) { return false; }
VF_ZCFG_END
VF_ZCFG_BEGIN(9, 33, true, true, P32_32, 3, 254, 1)
	static constexpr int inj(int) { return 0; } static constexpr int headInj() { return 0; } static constexpr bool bare(int) { return false; }
VF_ZCFG_END
VF_ZCFG_BEGIN(10, 3, true, false, void, 4, 0, 0)   // twin of 0: state 1 defines no callback
	static constexpr int inj(int) { return 0; } static constexpr int headInj() { return 0; } static constexpr bool bare(int i) { return i == 1; }
VF_ZCFG_END
VF_ZCFG_BEGIN(11, 3, true, true, void, 2, 3, 0)   // small manual machine, L = 2
	static constexpr int inj(int) { return 0; } static constexpr int headInj() { return 0; } static constexpr bool bare(int) { return false; }
VF_ZCFG_END
VF_ZCFG_BEGIN(12, 4, true, true, P4_4, 3, 5, 1)   // twin of 1: states 0 and 3 define no callback
	static constexpr int inj(int i) { return i == 1 ? 1 : i == 2 ? 2 : 0; } static constexpr int headInj() { return 0; } static constexpr bool bare(int i) { return i == 0 || i == 3; }
VF_ZCFG_END
VF_ZCFG_BEGIN(13, 2, true, false, void, 255, 0, 1)   // the largest substitution limit the configuration type can express
	static constexpr int inj(int) { return 0; } static constexpr int headInj() { return 0; } static constexpr bool bare(int) { return false; }
VF_ZCFG_END
VF_ZCFG_BEGIN(14, 3, false, true, P2_2, 255, 2, 1)   // L = 255, manual, headless, payload
	static constexpr int inj(int) { return 0; } static constexpr int headInj() { return 0; } static constexpr bool bare(int) { return false; }
VF_ZCFG_END
template <> struct ZCfg<15> {   // states 1 and 2 define complementary halves of the callbacks; states 4 and 5 do the same on top of one injection that defines them all
	static constexpr int N = 6; static constexpr bool HAS_HEAD = true; static constexpr bool IS_MANUAL = false;
	using Payload = void; static constexpr int L = 4; static constexpr int CAP = 0; static constexpr int CTX = 0;
	static constexpr int inj(int i) { return i >= 4 ? 1 : 0; } static constexpr int headInj() { return 0; }
	static constexpr bool bare(int i) { return i == 1 || i == 2 || i == 4 || i == 5; }
	static constexpr int kind(int i) { return i == 1 ? 2 : i == 2 ? 3 : i == 4 ? 4 : i == 5 ? 5 : 0; }
};
VF_ZCFG_BEGIN(16, 64, true, false, P12_4, 6, 0, 3)   // the largest machine the 64-bit activity masks of the trace can describe; serial form is exactly one byte
	static constexpr int inj(int i) { return i == 63 ? 1 : 0; } static constexpr int headInj() { return 0; } static constexpr bool bare(int) { return false; }
VF_ZCFG_END
VF_ZCFG_BEGIN(17, 7, false, true, P5_1, 4, 7, 2)   // odd payload size, headless + manual + reference context
	static constexpr int inj(int i) { return i == 2 ? 2 : 0; } static constexpr int headInj() { return 0; } static constexpr bool bare(int) { return false; }
VF_ZCFG_END
VF_ZCFG_BEGIN(18, 5, true, false, P320_64, 12, 3, 1)   // 320-byte / 64-aligned payload, a substitution limit between the small ones and 255, 4 and 5 injections
	static constexpr int inj(int i) { return i == 4 ? 1 : i == 2 ? 5 : i == 1 ? 4 : 0; } static constexpr int headInj() { return 0; } static constexpr bool bare(int) { return false; }
VF_ZCFG_END
VF_ZCFG_BEGIN(19, 70, false, true, P2_2, 3, 6, 1)   // more states than one machine word has bits (ids 64..69), headless, manual
	static constexpr int inj(int i) { return i == 69 ? 2 : i == 64 ? 1 : 0; } static constexpr int headInj() { return 0; } static constexpr bool bare(int) { return false; }
VF_ZCFG_END
static constexpr int ZOO_COUNT = 20;

// ---- config type builder --------------------------------------------------------------------------
template <class C, int K> struct WithCtx;
template <class C> struct WithCtx<C, 0> { using type = C; };
template <class C> struct WithCtx<C, 1> { using type = typename C::template ContextT<Ctx>; };
template <class C> struct WithCtx<C, 2> { using type = typename C::template ContextT<Ctx&>; };
template <class C> struct WithCtx<C, 3> { using type = typename C::template ContextT<Ctx*>; };
template <class C, bool M> struct WithManual { using type = C; };
template <class C> struct WithManual<C, true> { using type = typename C::ManualActivation; };
template <class C, class P> struct WithPay { using type = typename C::template PayloadT<P>; };
template <class C> struct WithPay<C, void> { using type = C; };
#ifdef VF_PLANS
template <class C, int CAP> struct WithCap { using type = typename C::template TaskCapacityN<CAP>; };
template <class C> struct WithCap<C, 0> { using type = C; };
#else
template <class C, int CAP> struct WithCap { using type = C; };
#endif

template <int CFG> struct Runner;
template <int CFG, int I, int KIND> struct StT;   // KIND 0: every callback, 1: none, 2 / 3: complementary halves
template <int CFG> struct Hd;

// one configuration alias per step; the order in which a zoo member applies them is a permutation chosen by its id, so that
// every alias is exercised with non-default settings already present on its left-hand side
template <class C, class Z, int K> struct CfgStep;
template <class C, class Z> struct CfgStep<C, Z, 0> { using type = typename WithCtx<C, Z::CTX>::type; };
template <class C, class Z> struct CfgStep<C, Z, 1> { using type = typename WithManual<C, Z::IS_MANUAL>::type; };
template <class C, class Z> struct CfgStep<C, Z, 2> { using type = typename C::template SubstitutionLimitN<Z::L>; };
template <class C, class Z> struct CfgStep<C, Z, 3> { using type = typename WithCap<C, Z::CAP>::type; };
template <class C, class Z> struct CfgStep<C, Z, 4> { using type = typename WithPay<C, typename Z::Payload>::type; };
constexpr int cfgOrder(int cfg, int pos) {   // rotation by cfg % 5, reversed for every other block of five members
	const int base = (cfg / 5) % 2 == 0 ? pos : 4 - pos;
	return (base + cfg % 5) % 5;
}

template <int CFG, class Seq> struct RootOf;
template <int CFG, size_t... Is> struct RootOf<CFG, std::index_sequence<Is...>> {
	using Z = ZCfg<CFG>;
	using C1 = typename CfgStep<ffsm2::Config, Z, cfgOrder(CFG, 0)>::type;
	using C2 = typename CfgStep<C1, Z, cfgOrder(CFG, 1)>::type;
	using C3 = typename CfgStep<C2, Z, cfgOrder(CFG, 2)>::type;
	using C4 = typename CfgStep<C3, Z, cfgOrder(CFG, 3)>::type;
	using C5 = typename CfgStep<C4, Z, cfgOrder(CFG, 4)>::type;
	using M = ffsm2::MachineT<C5>;
	using type = typename std::conditional<Z::HAS_HEAD,
		typename M::template Root<Hd<CFG>, StT<CFG, int(Is), Z::kind(int(Is))>...>,
		typename M::template PeerRoot<StT<CFG, int(Is), Z::kind(int(Is))>...>>::type;
};
template <int CFG> struct Zoo {
	using Z = ZCfg<CFG>;
	using FSM = typename RootOf<CFG, std::make_index_sequence<Z::N>>::type;
};

// ---- scripted states ------------------------------------------------------------------------------
#define VF_FSM_TYPES(CFG) \
	using FSM = typename Zoo<CFG>::FSM; \
	using GuardControl = typename FSM::GuardControl; using FullControl = typename FSM::FullControl; \
	using ConstControl = typename FSM::ConstControl; using PlanControl = typename FSM::State::PlanControl;

#define VF_CB_ENTRY_GUARD(SID, WHO) VF_VIRT void entryGuard(GuardControl& c) VF_CONSTQ noexcept { Runner<CFG>::cb(c, SID, M_ENTRY_GUARD, WHO, thisOk(), nullptr, ++seen); }
#define VF_CB_ENTER(SID, WHO) VF_VIRT void enter(PlanControl& c) VF_CONSTQ noexcept { Runner<CFG>::cb(c, SID, M_ENTER, WHO, thisOk(), nullptr, ++seen); }
#define VF_CB_REENTER(SID, WHO) VF_VIRT void reenter(PlanControl& c) VF_CONSTQ noexcept { Runner<CFG>::cb(c, SID, M_REENTER, WHO, thisOk(), nullptr, ++seen); }
#define VF_CB_PRE_UPDATE(SID, WHO) VF_VIRT void preUpdate(FullControl& c) VF_CONSTQ noexcept { Runner<CFG>::cb(c, SID, M_PRE_UPDATE, WHO, thisOk(), nullptr, ++seen); }
#define VF_CB_UPDATE(SID, WHO) VF_VIRT void update(FullControl& c) VF_CONSTQ noexcept { Runner<CFG>::cb(c, SID, M_UPDATE, WHO, thisOk(), nullptr, ++seen); }
#define VF_CB_POST_UPDATE(SID, WHO) VF_VIRT void postUpdate(FullControl& c) VF_CONSTQ noexcept { Runner<CFG>::cb(c, SID, M_POST_UPDATE, WHO, thisOk(), nullptr, ++seen); }
#define VF_CB_PRE_REACT(SID, WHO) template <class E> void preReact(const E& e, FullControl& c) { Runner<CFG>::cb(c, SID, M_PRE_REACT, WHO, thisOk(), &e, ++seen); }
#define VF_CB_REACT(SID, WHO) template <class E> void react(const E& e, FullControl& c) { Runner<CFG>::cb(c, SID, M_REACT, WHO, thisOk(), &e, ++seen); }
#define VF_CB_POST_REACT(SID, WHO) template <class E> void postReact(const E& e, FullControl& c) { Runner<CFG>::cb(c, SID, M_POST_REACT, WHO, thisOk(), &e, ++seen); }
#define VF_CB_QUERY(SID, WHO) template <class E> void query(E& e, ConstControl& c) const { Runner<CFG>::cb(c, SID, M_QUERY, WHO, thisOk(), &e, ++seen); }
#define VF_CB_EXIT_GUARD(SID, WHO) VF_VIRT void exitGuard(GuardControl& c) VF_CONSTQ noexcept { Runner<CFG>::cb(c, SID, M_EXIT_GUARD, WHO, thisOk(), nullptr, ++seen); }
#define VF_CB_EXIT(SID, WHO) VF_VIRT void exit(PlanControl& c) VF_CONSTQ noexcept { Runner<CFG>::cb(c, SID, M_EXIT, WHO, thisOk(), nullptr, ++seen); }

// every scripted object counts the callbacks delivered to it in a data member of its own (state-local data: a copy of the machine must carry it along)
#define VF_LOCAL mutable uint16_t seen = 0; EvA inboxA{0}; EvB inboxB{0, 0};
#define VF_VIRT
#define VF_CONSTQ
#define VF_CALLBACKS(SID, WHO) \
	VF_CB_ENTRY_GUARD(SID, WHO) VF_CB_ENTER(SID, WHO) VF_CB_REENTER(SID, WHO) VF_CB_PRE_UPDATE(SID, WHO) VF_CB_UPDATE(SID, WHO) VF_CB_POST_UPDATE(SID, WHO) \
	VF_CB_PRE_REACT(SID, WHO) VF_CB_REACT(SID, WHO) VF_CB_POST_REACT(SID, WHO) VF_CB_QUERY(SID, WHO) VF_CB_EXIT_GUARD(SID, WHO) VF_CB_EXIT(SID, WHO)

// members 5 and 17 declare the (non-template) callbacks of their injections virtual: the state's own callbacks then override them, and the
// library must still reach each injection's own implementation
template <int CFG> struct ZVirt { static constexpr bool value = CFG == 5 || CFG == 17; };

template <int CFG, int I, int J, bool VIRT = ZVirt<CFG>::value> struct Inj;
template <int CFG, int I, int J>
struct Inj<CFG, I, J, false> : Zoo<CFG>::FSM::State {
	VF_FSM_TYPES(CFG)
	bool thisOk() const;
	VF_LOCAL
	VF_CALLBACKS(I, J)
};
#undef VF_VIRT
#define VF_VIRT virtual
// ... and handle events with ordinary (non-template) overloads per event type next to the inherited defaults (the documented idiom for
// machines that react to more than one event type)
#define VF_CB_EVENTS_NT(SID, WHO, EVT) \
	void preReact(const EVT& e, FullControl& c) { Runner<CFG>::cb(c, SID, M_PRE_REACT, WHO, thisOk(), &e, ++seen); } \
	void react(const EVT& e, FullControl& c) { Runner<CFG>::cb(c, SID, M_REACT, WHO, thisOk(), &e, ++seen); } \
	void postReact(const EVT& e, FullControl& c) { Runner<CFG>::cb(c, SID, M_POST_REACT, WHO, thisOk(), &e, ++seen); } \
	void query(EVT& e, ConstControl& c) const { Runner<CFG>::cb(c, SID, M_QUERY, WHO, thisOk(), &e, ++seen); } \
	void query(const EVT& e, ConstControl& c) const { Runner<CFG>::cb(c, SID, M_QUERY, WHO, thisOk(), &e, ++seen); }
template <int CFG, int I, int J>
struct Inj<CFG, I, J, true> : Zoo<CFG>::FSM::State {
	VF_FSM_TYPES(CFG)
	using Base = typename Zoo<CFG>::FSM::State;
	using Base::preReact; using Base::react; using Base::postReact; using Base::query;
	bool thisOk() const;
	VF_LOCAL
	VF_CB_ENTRY_GUARD(I, J) VF_CB_ENTER(I, J) VF_CB_REENTER(I, J) VF_CB_PRE_UPDATE(I, J) VF_CB_UPDATE(I, J) VF_CB_POST_UPDATE(I, J) VF_CB_EXIT_GUARD(I, J) VF_CB_EXIT(I, J)
	VF_CB_EVENTS_NT(I, J, EvA) VF_CB_EVENTS_NT(I, J, EvB) VF_CB_EVENTS_NT(I, J, EvP) VF_CB_EVENTS_NT(I, J, int)
	// the enum event is taken BY VALUE (a natural signature for a scalar): overload resolution must still prefer these over the inherited templates
	void preReact(Sig, FullControl& c) { Runner<CFG>::cb(c, I, M_PRE_REACT, J, thisOk(), nullptr, ++seen); }
	void react(Sig, FullControl& c) { Runner<CFG>::cb(c, I, M_REACT, J, thisOk(), nullptr, ++seen); }
	void postReact(Sig, FullControl& c) { Runner<CFG>::cb(c, I, M_POST_REACT, J, thisOk(), nullptr, ++seen); }
	void query(Sig, ConstControl& c) const { Runner<CFG>::cb(c, I, M_QUERY, J, thisOk(), nullptr, ++seen); }
	virtual ~Inj() = default;
};
#undef VF_VIRT
#define VF_VIRT

template <int CFG, int I, int K> struct StBase;
template <int CFG, int I> struct StBase<CFG, I, 0> { using type = typename Zoo<CFG>::FSM::State; };
template <int CFG, int I> struct StBase<CFG, I, 1> { using type = typename Zoo<CFG>::FSM::template StateT<Inj<CFG, I, 0>>; };
template <int CFG, int I> struct StBase<CFG, I, 2> { using type = typename Zoo<CFG>::FSM::template StateT<Inj<CFG, I, 0>, Inj<CFG, I, 1>>; };
template <int CFG, int I> struct StBase<CFG, I, 3> { using type = typename Zoo<CFG>::FSM::template StateT<Inj<CFG, I, 0>, Inj<CFG, I, 1>, Inj<CFG, I, 2>>; };
template <int CFG, int I> struct StBase<CFG, I, 4> { using type = typename Zoo<CFG>::FSM::template StateT<Inj<CFG, I, 0>, Inj<CFG, I, 1>, Inj<CFG, I, 2>, Inj<CFG, I, 3>>; };
template <int CFG, int I> struct StBase<CFG, I, 5> { using type = typename Zoo<CFG>::FSM::template StateT<Inj<CFG, I, 0>, Inj<CFG, I, 1>, Inj<CFG, I, 2>, Inj<CFG, I, 3>, Inj<CFG, I, 4>>; };

template <int CFG, int I>
struct StT<CFG, I, 0> : StBase<CFG, I, ZCfg<CFG>::inj(I)>::type {
	VF_FSM_TYPES(CFG)
	bool thisOk() const;
	VF_LOCAL
	VF_CALLBACKS(I, WHO_SELF)
	uint32_t localSum() const {   // own counter and the counters of the injections this object derives from
		uint32_t h = seen;
		if constexpr (ZCfg<CFG>::inj(I) >= 1) h = h * 31 + static_cast<const Inj<CFG, I, 0>*>(this)->seen;
		if constexpr (ZCfg<CFG>::inj(I) >= 2) h = h * 31 + static_cast<const Inj<CFG, I, 1>*>(this)->seen;
		if constexpr (ZCfg<CFG>::inj(I) >= 3) h = h * 31 + static_cast<const Inj<CFG, I, 2>*>(this)->seen;
		if constexpr (ZCfg<CFG>::inj(I) >= 4) h = h * 31 + static_cast<const Inj<CFG, I, 3>*>(this)->seen;
		if constexpr (ZCfg<CFG>::inj(I) >= 5) h = h * 31 + static_cast<const Inj<CFG, I, 4>*>(this)->seen;
		return h;
	}
};
template <int CFG, int I>
struct StT<CFG, I, 1> : Zoo<CFG>::FSM::State { VF_LOCAL uint32_t localSum() const { return seen; } };
// states that define only half of the callbacks (no injections): which method records a non-verbose logger emits depends on exactly which ones exist
template <int CFG, int I>
struct StT<CFG, I, 2> : Zoo<CFG>::FSM::State {
	VF_FSM_TYPES(CFG)
	bool thisOk() const;
	VF_LOCAL
	VF_CB_ENTRY_GUARD(I, WHO_SELF) VF_CB_REENTER(I, WHO_SELF) VF_CB_PRE_UPDATE(I, WHO_SELF) VF_CB_POST_UPDATE(I, WHO_SELF) VF_CB_REACT(I, WHO_SELF) VF_CB_EXIT(I, WHO_SELF)
	uint32_t localSum() const { return seen; }
};
// (kinds 3 and 5 also declare their callbacks `const noexcept`: in C++17 that is a different member-function type, which the library's
// "does this state define the callback" test must still recognise)
#undef VF_CONSTQ
#define VF_CONSTQ const
template <int CFG, int I>
struct StT<CFG, I, 3> : Zoo<CFG>::FSM::State {
	VF_FSM_TYPES(CFG)
	bool thisOk() const;
	VF_LOCAL
	VF_CB_ENTER(I, WHO_SELF) VF_CB_UPDATE(I, WHO_SELF) VF_CB_PRE_REACT(I, WHO_SELF) VF_CB_POST_REACT(I, WHO_SELF) VF_CB_QUERY(I, WHO_SELF) VF_CB_EXIT_GUARD(I, WHO_SELF)
	uint32_t localSum() const { return seen; }
};
#undef VF_CONSTQ
#define VF_CONSTQ
// ... and the same two halves for a state that has one injection: whatever the state does not define itself is inherited from the library's
// defaults, NOT from the injection (whose own callback is run by the injection chain, exactly once)
template <int CFG, int I>
struct StT<CFG, I, 4> : StBase<CFG, I, 1>::type {
	VF_FSM_TYPES(CFG)
	bool thisOk() const;
	VF_LOCAL
	VF_CB_ENTRY_GUARD(I, WHO_SELF) VF_CB_REENTER(I, WHO_SELF) VF_CB_PRE_UPDATE(I, WHO_SELF) VF_CB_POST_UPDATE(I, WHO_SELF) VF_CB_REACT(I, WHO_SELF) VF_CB_EXIT(I, WHO_SELF)
	uint32_t localSum() const { return seen * 31u + static_cast<const Inj<CFG, I, 0>*>(this)->seen; }
};
#undef VF_CONSTQ
#define VF_CONSTQ const
template <int CFG, int I>
struct StT<CFG, I, 5> : StBase<CFG, I, 1>::type {
	VF_FSM_TYPES(CFG)
	bool thisOk() const;
	VF_LOCAL
	VF_CB_ENTER(I, WHO_SELF) VF_CB_UPDATE(I, WHO_SELF) VF_CB_PRE_REACT(I, WHO_SELF) VF_CB_POST_REACT(I, WHO_SELF) VF_CB_QUERY(I, WHO_SELF) VF_CB_EXIT_GUARD(I, WHO_SELF)
	uint32_t localSum() const { return seen * 31u + static_cast<const Inj<CFG, I, 0>*>(this)->seen; }
};
#undef VF_CONSTQ
#define VF_CONSTQ
static constexpr uint16_t DEF_A = (1u << M_ENTRY_GUARD) | (1u << M_REENTER) | (1u << M_PRE_UPDATE) | (1u << M_POST_UPDATE) | (1u << M_REACT) | (1u << M_EXIT);
static constexpr uint16_t DEF_B = (1u << M_ENTER) | (1u << M_UPDATE) | (1u << M_PRE_REACT) | (1u << M_POST_REACT) | (1u << M_QUERY) | (1u << M_EXIT_GUARD);

static constexpr int HEAD_TAG = 255;  // pseudo state index used for the head's injections
template <int CFG>
struct Hd : StBase<CFG, HEAD_TAG, ZCfg<CFG>::headInj()>::type {
	VF_FSM_TYPES(CFG)
	bool thisOk() const;
	VF_LOCAL
	VF_CALLBACKS(NOID, WHO_SELF)
#ifdef VF_PLANS
	void planSucceeded(FullControl& c) { Runner<CFG>::cb(c, NOID, M_PLAN_SUCCEEDED, WHO_SELF, thisOk(), nullptr, ++seen); }
	void planFailed(FullControl& c) { Runner<CFG>::cb(c, NOID, M_PLAN_FAILED, WHO_SELF, thisOk(), nullptr, ++seen); }
#endif
	uint32_t localSum() const {
		uint32_t h = seen;
		if constexpr (ZCfg<CFG>::headInj() >= 1) h = h * 31 + static_cast<const Inj<CFG, HEAD_TAG, 0>*>(this)->seen;
		if constexpr (ZCfg<CFG>::headInj() >= 2) h = h * 31 + static_cast<const Inj<CFG, HEAD_TAG, 1>*>(this)->seen;
		return h;
	}
};


// ---- templated forms of the API (changeTo<T>(), isActive<T>(), succeed<T>() ...), dispatched over the state index -------------
template <int CFG>
struct Tmpl {
	using Z = ZCfg<CFG>;
	using FSM = typename Zoo<CFG>::FSM;
	using Instance = typename FSM::Instance;
	using Payload = typename Z::Payload;
	static constexpr int N = Z::N;
	template <int I> using S = StT<CFG, I, Z::kind(I)>;
	using Seq = std::make_index_sequence<N>;

	template <class M, size_t... Is> static Mask activeMask(const M& m, std::index_sequence<Is...>) {
		Mask mask = 0;
		const bool each[] = {m.template isActive<S<int(Is)>>()...};
		for (size_t k = 0; k < sizeof...(Is); ++k) if (each[k]) mask |= (Mask(1) << k);
		return mask;
	}
	template <size_t... Is> static bool idsOk(std::index_sequence<Is...>) {
		const bool each[] = {(FSM::template stateId<S<int(Is)>>() == ffsm2::StateID(Is))...};
		for (bool b : each) if (!b) return false;
		return true;
	}
	template <class C, size_t... Is> static bool ctlIdsOk(const C& c, std::index_sequence<Is...>) {   // control.stateId<T>()
		(void) c;
		const bool each[] = {(c.template stateId<S<int(Is)>>() == ffsm2::StateID(Is))...};
		for (bool b : each) if (!b) return false;
		return true;
	}
	// op: 0 changeTo 1 immediateChangeTo 2 succeed 3 fail 4 changeWith 5 immediateChangeWith
	template <class M, int I> static void one(M& m, int op, uint8_t seed) {
		(void) seed;
		switch (op) {
		case 0: m.template changeTo<S<I>>(); break;
		case 1: if constexpr (std::is_same<M, Instance>::value) m.template immediateChangeTo<S<I>>(); break;
#ifdef VF_PLANS
		case 2: m.template succeed<S<I>>(); break;
		case 3: m.template fail<S<I>>(); break;
#endif
		case 4: if constexpr (!std::is_void<Payload>::value) m.template changeWith<S<I>>(makePay<Payload>(seed)); break;
		case 5: if constexpr (!std::is_void<Payload>::value && std::is_same<M, Instance>::value) m.template immediateChangeWith<S<I>>(makePay<Payload>(seed)); break;
		default: break;
		}
	}
	template <class M, size_t... Is> static void call(M& m, int k, int op, uint8_t seed, std::index_sequence<Is...>) {
		using Fn = void (*)(M&, int, uint8_t);
		static const Fn table[] = {&one<M, int(Is)>...};
		table[k](m, op, seed);
	}
	template <class M> static void call(M& m, int k, int op, uint8_t seed = 0) { call(m, k, op, seed, Seq{}); }
#ifdef VF_PLANS
	template <class P, int I> static bool planOne(P& p, uint8_t dest, uint8_t seed) {
		(void) seed;
		if constexpr (!std::is_void<Payload>::value) { if (seed) return p.template changeWith<S<I>>(dest, makePay<Payload>(seed)); }
		return p.template change<S<I>>(dest);
	}
	// change<TOrigin, TDestination>() / changeWith<TOrigin, TDestination>(payload): N * N instantiations, small machines only
	static constexpr bool PAIRS = N <= 9;
	template <class P, int IJ> static bool planTwo(P& p, uint8_t seed) {
		(void) seed;
		if constexpr (!std::is_void<Payload>::value) { if (seed) return p.template changeWith<S<IJ / N>, S<IJ % N>>(makePay<Payload>(seed)); }
		return p.template change<S<IJ / N>, S<IJ % N>>();
	}
	template <class P, size_t... IJs> static bool planAppendTwo(P& p, int origin, uint8_t dest, uint8_t seed, std::index_sequence<IJs...>) {
		using Fn = bool (*)(P&, uint8_t);
		static const Fn table[] = {&planTwo<P, int(IJs)>...};
		return table[origin * N + dest](p, seed);
	}
	template <class P, size_t... Is> static bool planAppend(P& p, int origin, uint8_t dest, uint8_t seed, std::index_sequence<Is...>) {
		using Fn = bool (*)(P&, uint8_t, uint8_t);
		static const Fn table[] = {&planOne<P, int(Is)>...};
		return table[origin](p, dest, seed);
	}
	template <class P> static bool planAppend(P& p, int origin, uint8_t dest, uint8_t seed) {
		if constexpr (PAIRS) { if ((origin + dest) & 1) return planAppendTwo(p, origin, dest, seed, std::make_index_sequence<size_t(N) * N>{}); }
		return planAppend(p, origin, dest, seed, Seq{});
	}
#endif
};

// ---- runner ---------------------------------------------------------------------------------------
template <int CFG>
struct Runner {
	using Z = ZCfg<CFG>;
	using FSM = typename Zoo<CFG>::FSM;
	using Instance = typename FSM::Instance;
	using Payload = typename Z::Payload;
	static constexpr int N = Z::N;
	static constexpr bool HAS_PAY = !std::is_void<Payload>::value;
#ifdef VF_PLANS
	static constexpr int CAP = Z::CAP == 0 ? Z::N : Z::CAP;
#else
	static constexpr int CAP = 0;
#endif

	struct Slot {
		alignas(64) unsigned char store[sizeof(Instance) + 64];
		void* heap = nullptr;
		bool alive = false, dead = false;  // dead: abandoned after a budget abort
		bool logger = false;
	};
	static Slot slots[3];
#ifdef VF_LOG
	struct Lg : FSM::Logger {
		using Context = typename FSM::Logger::Context;
		void recordMethod(const Context&, const ffsm2::StateID origin, const ffsm2::Method method) override {
			if (W.mute) return;   // (the husk of a relocated automatic machine exits in its destructor and reports that to the logger it still points to)
			Ev& e = pushEv(EV_LOG); e.method = LOG_METHOD; e.a = origin; e.b = static_cast<uint8_t>(method);
		}
		void recordTransition(const Context&, const ffsm2::StateID origin, const ffsm2::StateID target) override {
			Ev& e = pushEv(EV_LOG); e.method = LOG_TRANSITION; e.a = origin; e.b = target;
		}
#ifdef VF_PLANS
		void recordTaskStatus(const Context&, const ffsm2::StateID origin, const ffsm2::StatusEvent event) override {
			Ev& e = pushEv(EV_LOG); e.method = LOG_TASK; e.a = origin; e.b = static_cast<uint8_t>(event);
		}
		void recordPlanStatus(const Context&, const ffsm2::StatusEvent event) override {
			Ev& e = pushEv(EV_LOG); e.method = LOG_PLAN; e.a = NOID; e.b = static_cast<uint8_t>(event);
		}
#endif
		void recordCancelledPending(const Context&, const ffsm2::StateID origin) override {
			Ev& e = pushEv(EV_LOG); e.method = LOG_CANCEL; e.a = origin;
		}
	};
	static Lg logger;
#endif
#ifdef VF_SERIAL
	using SerialBuffer = typename Instance::SerialBuffer;
	struct Guarded { uint64_t c0; SerialBuffer buf; uint64_t c1; };
	static Guarded bufs[2];
	static bool saved[2];
	static uint8_t savedAct[2];  // activity of the saver at save time (NOID = inactive)
#endif

	static Instance* ptr(uint8_t i) {
		Slot& s = slots[i];
		return reinterpret_cast<Instance*>(s.heap ? s.heap : static_cast<void*>(s.store));
	}

	// ---- observation ---------------------------------------------------------------------------
	template <class T> static TrV trOf(const T& t) {
		TrV v;
		v.valid = static_cast<bool>(t) ? 1 : 0;
		v.origin = t.origin; v.dest = t.destination;
		if constexpr (HAS_PAY) readPay(t.payload(), v.hasPay, v.seed, v.exact, v.aligned);
		return v;
	}
#ifdef VF_PLANS
	template <class T> static TaskV taskOf(const T& t) {
		TaskV v; v.origin = t.origin; v.dest = t.destination;
		if constexpr (HAS_PAY) readPay(t.payload(), v.hasPay, v.seed, v.exact, v.aligned);
		return v;
	}
	template <class P> static uint32_t iterate(P&& plan, TaskV* out, uint32_t limit, bool& trunc) {
		uint32_t n = 0;
		for (auto it = plan.begin(); it; ++it) {
			if (n >= limit) { trunc = true; break; }
			out[n++] = taskOf(*it);
		}
		return n;
	}
	static bool sameSeq(const TaskV* a, uint32_t na, const TaskV* b, uint32_t nb) {
		if (na != nb) return false;
		for (uint32_t i = 0; i < na; ++i) if (!(a[i] == b[i]) || a[i].exact != b[i].exact) return false;
		return true;
	}
	static TaskV scratch[2][260];
	static void snapshotPlan(Instance& m, Ev& e) {
		Trace& t = *W.tr;
		const uint32_t limit = CAP + 1;
		if (t.poolN + limit + 4 >= POOL_CAP) { t.overflow = true; return; }
		TaskV* out = t.pool + t.poolN;
		bool trunc = false;
		auto p = m.plan();
		const uint32_t n = iterate(p, out, limit, trunc);
		uint8_t fl = 0;
		if (static_cast<bool>(p)) fl |= PF_BOOL;
		// other views of the same plan
		bool views = true, t2 = false;
		{ const auto cp = m.plan(); const uint32_t k = iterate(cp, scratch[0], limit, t2); views = views && sameSeq(out, n, scratch[0], k) && (static_cast<bool>(cp) == static_cast<bool>(p)); }
		{ const Instance& cm = m; auto cpl = cm.plan(); const uint32_t k = iterate(cpl, scratch[1], limit, t2); views = views && sameSeq(out, n, scratch[1], k) && (static_cast<bool>(cpl) == static_cast<bool>(p));
		  bool fl_ok = true;
		  if (n > 0 && static_cast<bool>(cpl)) { fl_ok = taskOf(cpl.first()) == out[0] && taskOf(cpl.last()) == out[n - 1]; }
#ifdef VF_PLAN_FIRSTLAST
		  if (n > 0 && static_cast<bool>(p)) { fl_ok = fl_ok && taskOf(p.first()) == out[0] && taskOf(p.last()) == out[n - 1];
			const auto cp2 = m.plan(); fl_ok = fl_ok && taskOf(cp2.first()) == out[0] && taskOf(cp2.last()) == out[n - 1]; }
#endif
		  if (fl_ok) fl |= PF_FIRSTLAST_OK;
		}
		if (views && !t2) fl |= PF_VIEWS_EQUAL;
		if (trunc) fl |= PF_TRUNC;
		fl |= PF_CTL_EQUAL;
		e.planFlags = fl;
		// intern: reuse the previous snapshot if identical and adjacent in the pool
		e.planOff = t.poolN; e.planLen = n;
		t.poolN += n;
	}
#endif
	static void observe(uint8_t i, Ev& e) {
		Slot& s = slots[i];
		if (!s.alive || s.dead) { e.mAct = NOID; e.mManual = 2; e.live = 0; return; }
		Instance& m = *ptr(i);
		e.live = 1;
		e.mAct = m.activeStateId();
		Mask mask = 0;
		for (int k = 0; k < N; ++k) if (m.isActive(static_cast<ffsm2::StateID>(k))) mask |= (Mask(1) << k);
		e.mActMask = mask;
		if (Tmpl<CFG>::activeMask(m, typename Tmpl<CFG>::Seq{}) != mask || !Tmpl<CFG>::idsOk(typename Tmpl<CFG>::Seq{})) e.tmplOk = 0;   // isActive<T>() / stateId<T>() agree with the id forms
		if constexpr (Z::IS_MANUAL) e.mManual = m.isActive() ? 1 : 0; else e.mManual = 2;
#ifdef VF_HISTORY
		e.prev = trOf(m.previousTransition());
#endif
#ifdef VF_PLANS
		snapshotPlan(m, e);
#endif
	}
	template <size_t... Is> static uint32_t localAll(Instance& m, std::index_sequence<Is...>) {
		uint32_t h = 0;
		const uint32_t each[] = {m.template access<StT<CFG, int(Is), Z::kind(int(Is))>>().localSum()...};
		for (uint32_t v : each) h = h * 131 + v;
		if constexpr (Z::HAS_HEAD) h = h * 131 + m.template access<Hd<CFG>>().localSum();
		return h;
	}
	// data members of the state objects (read through access<T>()), taken at operation boundaries
	static void observeLocal(uint8_t i, Ev& e) {
		Slot& s = slots[i];
		if (!s.alive || s.dead) return;
		e.hasLocal = 1;
		e.localSum = localAll(*ptr(i), std::make_index_sequence<N>{});
	}
#ifdef VF_SERIAL
	static void observeSerial(uint8_t i, Ev& e) {
		Slot& s = slots[i];
		if (!s.alive || s.dead) return;
		Instance& m = *ptr(i);
		if constexpr (!Z::IS_MANUAL) { if (m.activeStateId() == ffsm2::INVALID_STATE_ID) return; }
		Guarded g; g.c0 = 0xA5A5A5A5A5A5A5A5ull; g.c1 = 0x5A5A5A5A5A5A5A5Aull;
		for (unsigned k = 0; k < sizeof(g.buf.data()); ++k) g.buf.data()[k] = 0xEE;
		m.save(g.buf);
		e.hasSerial = 1;
		e.serial = 0;
		for (unsigned k = 0; k < sizeof(g.buf.data()) && k < 2; ++k) e.serial |= static_cast<uint16_t>(g.buf.data()[k]) << (8 * k);
		if (g.c0 != 0xA5A5A5A5A5A5A5A5ull || g.c1 != 0x5A5A5A5A5A5A5A5Aull) e.hasSerial = 3;  // canary broken
		// bits beyond BIT_CAPACITY must be zero
		constexpr unsigned bits = SerialBuffer::BIT_CAPACITY;
		if (bits < 16 && (e.serial >> bits) != 0) e.hasSerial = 3;
	}
#endif

	// ---- callbacks -----------------------------------------------------------------------------
	template <class C> static constexpr uint8_t flavour() {
		if constexpr (std::is_same<C, typename FSM::GuardControl>::value) return CTL_GUARD;
		else if constexpr (std::is_same<C, typename FSM::FullControl>::value) return CTL_FULL;
		else if constexpr (std::is_same<C, typename FSM::ConstControl>::value) return CTL_CONST;
		else return CTL_PLAN;
	}

	template <class C>
	static void cb(C& control, uint8_t state, uint8_t method, uint8_t who, bool thisOk, const void* evt, uint16_t local) {
		constexpr uint8_t fl = flavour<C>();
		if (W.mute) return;
		if (++W.cbCount > W.cbBudget) {
			W.tr->budgetAbort = true; W.tr->budgetState = state; W.tr->budgetMethod = method;
			note(NOTE_BUDGET, state, method);
			siglongjmp(W.jb, 1);
		}
		Ev& e = pushEv(EV_CB);
		e.state = state; e.method = method; e.who = who; e.ctl = fl;
		e.thisOk = thisOk;
		e.local = local;
		e.evtOk = (evt == nullptr) ? 1 : (evt == W.evtAddr);
		// control view
		e.sid = control.stateId();
		Mask mask = 0;
		for (int k = 0; k < N; ++k) if (control.isActive(static_cast<ffsm2::StateID>(k))) mask |= (Mask(1) << k);
		e.cAct = mask;
		if (Tmpl<CFG>::activeMask(control, typename Tmpl<CFG>::Seq{}) != mask || !Tmpl<CFG>::ctlIdsOk(control, typename Tmpl<CFG>::Seq{})) e.ctmplOk = 0;
		e.req = trOf(control.request());
		if constexpr (fl == CTL_GUARD) e.pend = trOf(control.pendingTransition());
		if constexpr (fl != CTL_CONST) e.cur = trOf(control.currentTransition());
		Instance& m = *ptr(W.cur);
#ifdef VF_HISTORY
		{ const TrV cp = trOf(control.previousTransitions()), mp = trOf(m.previousTransition()); if (!(cp == mp) || cp.valid != mp.valid) e.cprevOk = 0; }
#endif
		{	// context identity
			bool ok = true;
			auto&& viaContext = control.context(); auto&& viaShort = control._(); auto&& viaMachine = m.context();   // (bound to references: a by-value accessor yields a temporary, i.e. another object)
			if constexpr (Z::CTX == 0) ok = static_cast<const void*>(&viaContext) == static_cast<const void*>(&viaMachine) && static_cast<const void*>(&viaShort) == static_cast<const void*>(&viaMachine);
			else if constexpr (Z::CTX == 1) ok = &viaContext == &viaMachine && &viaShort == &viaMachine && viaContext.tag == W.ctxTag[W.cur];
			else if constexpr (Z::CTX == 2) ok = &viaContext == &W.ctxObj[W.ctxOf[W.cur]] && &viaShort == &W.ctxObj[W.ctxOf[W.cur]] && &viaMachine == &W.ctxObj[W.ctxOf[W.cur]];
			else ok = control.context() == &W.ctxObj[W.ctxOf[W.cur]] && control._() == &W.ctxObj[W.ctxOf[W.cur]] && m.context() == &W.ctxObj[W.ctxOf[W.cur]];
			{	// the const overloads (control and machine) show the same context object
				const C& cc = control; const Instance& cm = m;
				if constexpr (Z::CTX == 3) ok = ok && cc.context() == control.context() && cc._() == control._() && cm.context() == m.context();
				else { auto&& c1 = cc.context(); auto&& c2 = cc._(); auto&& c3 = cm.context();
					ok = ok && static_cast<const void*>(&c1) == static_cast<const void*>(&viaContext) && static_cast<const void*>(&c2) == static_cast<const void*>(&viaShort) && static_cast<const void*>(&c3) == static_cast<const void*>(&viaMachine); }
			}
			e.ctxOk = ok;
		}
		observe(W.cur, e);
#ifdef VF_SERIAL
		observeSerial(W.cur, e);   // save() is a const observer like activeStateId(): what it writes must agree with the activity reported at this very moment
#endif
#ifdef VF_PLANS
		{	// control.plan() must show the same sequence as machine.plan()
			bool trunc = false;
#if !defined(VF_CONST_PLAN)
			if constexpr (fl != CTL_CONST)
#endif
			{
			auto cp = control.plan();
			const uint32_t k = iterate(cp, scratch[0], CAP + 1, trunc);
			const bool same = sameSeq(W.tr->pool + e.planOff, e.planLen, scratch[0], k) && (static_cast<bool>(cp) == ((e.planFlags & PF_BOOL) != 0));
			if (!same || trunc) e.planFlags &= static_cast<uint8_t>(~PF_CTL_EQUAL);
			}
		}
#endif
		if constexpr (fl != CTL_CONST) decide(control, state, method);
	}

	static uint8_t normState(uint8_t x) { return static_cast<uint8_t>(x % N); }

	template <class C>
	static void decide(C& control, uint8_t state, uint8_t method) {
		constexpr uint8_t fl = flavour<C>();
		if (W.quiet) return;
		if (W.hostile) {
			if constexpr (fl == CTL_GUARD) {
				Ev& a = pushEv(EV_ACT); a.state = state; a.method = ACT_CANCEL; a.d = method;
				control.cancelPendingTransition();
				Ev& b = pushEv(EV_ACT); b.state = state; b.method = ACT_REQUEST; b.a = normState(static_cast<uint8_t>(control.stateId() + 1)); b.d = method;
				control.changeTo(b.a);
				after(control, state, method);
			}
			return;
		}
		const uint32_t before = W.tr->n;
		for (int chain = 0; chain < 3; ++chain) {
			if (!W.op || W.actPos >= W.op->acts.size()) break;
			const Action act = W.op->acts[W.actPos];
			if (!(act.kind & ACT_STICKY)) ++W.actPos;
			else if (((act.kind & ACT_KIND_MASK) % ACT_COUNT) == ACT_REQUEST_REL && act.y >= 64) {
				if (W.stickyOp != W.op || W.stickyPos != W.actPos) { W.stickyOp = W.op; W.stickyPos = W.actPos; W.stickyLeft = unsigned(act.y) - 63u; }
				if (--W.stickyLeft == 0) { ++W.actPos; W.stickyOp = nullptr; }
			}
			perform(control, state, method, act);
			if (!(act.kind & ACT_CHAIN)) break;
		}
		if (W.tr->n != before) after(control, state, method);
	}

	// observation taken right after a callback's actions (so predicates know the exact state the callback left behind)
	template <class C>
	static void after(C& control, uint8_t state, uint8_t method) {
		Ev& e = pushEv(EV_NOTE);
		e.method = NOTE_AFTER; e.state = state; e.d = method;
		e.req = trOf(control.request());
		observe(W.cur, e);
	}

	template <class C>
	static void perform(C& control, uint8_t state, uint8_t method, const Action& act) {
		constexpr uint8_t fl = flavour<C>();
		uint8_t kind = static_cast<uint8_t>((act.kind & ACT_KIND_MASK) % ACT_COUNT);
		uint8_t reqDest = act.x;
		if (kind == ACT_REQUEST_REL) { kind = ACT_REQUEST; reqDest = static_cast<uint8_t>((state == NOID ? 0 : state) + 1 + act.x % 3); }
		const bool fwd = kind == ACT_REQUEST_FWD;   // payload handed over by reference to library-owned storage
		if (fwd) kind = ACT_REQUEST;
		if (kind == ACT_M_REPORT) {
#ifdef VF_PLANS
			if constexpr (fl == CTL_CONST) { ++W.tr->normalised; return; }
			else {
				Ev& a = pushEv(EV_ACT);
				a.state = state; a.method = (act.y & 1) ? ACT_FAIL_ID : ACT_SUCCEED_ID; a.d = method; a.a = normState(act.x);
				if (act.y & 1) ptr(W.cur)->fail(a.a); else ptr(W.cur)->succeed(a.a);
				return;
			}
#else
			++W.tr->normalised; return;
#endif
		}
		if (kind == ACT_M_REQUEST) {
			// a request through the machine object itself (users keep a pointer to it in the context): possible from every non-const callback,
			// also from enter / exit / reenter whose control offers no changeTo()
			if constexpr (fl == CTL_CONST) { ++W.tr->normalised; return; }
			else {
				Ev& a = pushEv(EV_ACT);
				a.state = NOID; a.method = ACT_REQUEST; a.d = method; a.a = normState(act.x);
				Instance& mm = *ptr(W.cur);
				if constexpr (HAS_PAY) { a.c = act.pay; if (act.pay) mm.changeWith(a.a, makePay<Payload>(act.pay)); else mm.changeTo(a.a); }
				else mm.changeTo(a.a);
				return;
			}
		}
		constexpr bool full = (fl == CTL_FULL || fl == CTL_GUARD);
		// normalise to what this control offers
		if (kind == ACT_CANCEL && fl != CTL_GUARD) kind = ACT_NONE;
		if ((kind == ACT_REQUEST || kind == ACT_SUCCEED_SELF || kind == ACT_FAIL_SELF || kind == ACT_SUCCEED_ID || kind == ACT_FAIL_ID) && !full) kind = ACT_NONE;
#ifndef VF_PLANS
		if (kind >= ACT_SUCCEED_SELF && kind <= ACT_PLAN_REMOVE) kind = ACT_NONE;
#endif
#ifndef VF_LOG
		if (kind == ACT_LOGGER) kind = ACT_NONE;
#endif
		if (state == NOID && kind == ACT_SUCCEED_SELF) kind = ACT_SUCCEED_ID;  // the head has no own id (asserted precondition)
		if (state == NOID && kind == ACT_FAIL_SELF) kind = ACT_FAIL_ID;
		if (kind == ACT_NONE) { if (((act.kind & ACT_KIND_MASK) % ACT_COUNT) != ACT_NONE) ++W.tr->normalised; return; }
		Ev& a = pushEv(EV_ACT);
		a.state = state; a.method = kind; a.d = method;
		const bool tmplForm = ((act.x / N) & 1) != 0;   // use the templated form of the call (changeTo<T>() ...) instead of the id form
		switch (kind) {
		case ACT_REQUEST:
			if constexpr (full) {
				a.a = normState(reqDest);
				if (fwd) {
					if constexpr (HAS_PAY) {
						const Payload* src = nullptr;
						switch (act.y % 4) {
						case 1: if constexpr (fl == CTL_GUARD) { src = control.pendingTransition().payload(); break; } [[fallthrough]];
						case 0: src = control.request().payload(); break;
						case 2: src = control.currentTransition().payload(); break;
						default:
#ifdef VF_HISTORY
							src = control.previousTransitions().payload();
#else
							src = control.request().payload();
#endif
							break;
						}
						const bool viaMachine = ((act.y / 4) & 1) != 0;   // the machine's own changeWith(), handed a reference into the machine's own request
						if (viaMachine) a.state = NOID;
						if (src) { uint8_t has, seed, exact, aligned; readPay(src, has, seed, exact, aligned); a.c = seed; if (viaMachine) ptr(W.cur)->changeWith(a.a, *src); else control.changeWith(a.a, *src); }
						else if (viaMachine) ptr(W.cur)->changeTo(a.a); else control.changeTo(a.a);
					} else control.changeTo(a.a);
					break;
				}
				if constexpr (HAS_PAY) {
					a.c = act.pay;
					if (act.pay) { if (tmplForm) Tmpl<CFG>::call(control, a.a, 4, act.pay); else control.changeWith(a.a, makePay<Payload>(act.pay)); }
					else { if (tmplForm) Tmpl<CFG>::call(control, a.a, 0); else control.changeTo(a.a); }
				} else { if (tmplForm) Tmpl<CFG>::call(control, a.a, 0); else control.changeTo(a.a); }
			}
			break;
		case ACT_CANCEL:
			if constexpr (fl == CTL_GUARD) control.cancelPendingTransition();
			break;
#ifdef VF_LOG
		case ACT_LOGGER:
			a.a = act.x & 1;
			if (W.opts.loggerMode == 0) {   // (the logger-independence shadow runs keep their fixed attachment; the action stays in the trace)
				ptr(W.cur)->attachLogger(a.a ? &logger : nullptr);
				slots[W.cur].logger = a.a != 0;
			}
			break;
#endif
#ifdef VF_PLANS
		case ACT_SUCCEED_SELF: if constexpr (full) { a.a = state; control.succeed(); } break;
		case ACT_FAIL_SELF: if constexpr (full) { a.a = state; control.fail(); } break;
		case ACT_SUCCEED_ID: if constexpr (full) { a.a = normState(act.x); if (tmplForm) Tmpl<CFG>::call(control, a.a, 2); else control.succeed(a.a); } break;
		case ACT_FAIL_ID: if constexpr (full) { a.a = normState(act.x); if (tmplForm) Tmpl<CFG>::call(control, a.a, 3); else control.fail(a.a); } break;
		case ACT_PLAN_APPEND: {
			a.a = normState(act.x); a.b = normState(act.y);
			bool r;
			if constexpr (HAS_PAY) {
				a.c = act.pay;
				if (tmplForm) { auto pl = control.plan(); r = Tmpl<CFG>::planAppend(pl, a.a, a.b, act.pay); }
				else if (act.pay) r = control.plan().changeWith(a.a, a.b, makePay<Payload>(act.pay)); else r = control.plan().change(a.a, a.b);
			} else { if (tmplForm) { auto pl = control.plan(); r = Tmpl<CFG>::planAppend(pl, a.a, a.b, 0); } else r = control.plan().change(a.a, a.b); }
			note(NOTE_APPEND_RESULT, r, a.a, a.b);
			break; }
		case ACT_PLAN_CLEAR: control.plan().clear(); break;
		case ACT_PLAN_REMOVE: {
			a.a = act.x;
			auto p = control.plan();
			unsigned pos = 0, guard = 0;
			for (auto it = p.begin(); it && guard <= static_cast<unsigned>(CAP); ++it, ++pos, ++guard)
				if ((act.x >> (pos % 8)) & 1) it.remove();
			break; }
#endif
		default: break;
		}
	}

	// ---- instance life cycle ---------------------------------------------------------------------
	template <class F> static bool guarded(uint8_t inst, F&& f) {
		W.cur = inst; W.cbCount = 0;
		if (sigsetjmp(W.jb, 0) == 0) {
			g_inCall = true; f(); g_inCall = false;
			return true;
		}
		g_inCall = false;
		slots[inst].dead = true;
		return false;
	}

	static void constructInto(uint8_t i, bool withLogger) {
		Slot& s = slots[i];
		void* where = s.heap ? s.heap : static_cast<void*>(s.store);
		(void) withLogger;
#ifdef VF_LOG
		auto* lg = withLogger ? &logger : nullptr;
#define VF_LGARG , lg
#define VF_LGONLY lg
#else
#define VF_LGARG
#define VF_LGONLY
#endif
		if constexpr (Z::CTX == 0) new (where) Instance(VF_LGONLY);
		else if constexpr (Z::CTX == 1) { if (i == 1) { Ctx lv{W.ctxTag[i]}; new (where) Instance(lv VF_LGARG); } else new (where) Instance(Ctx{W.ctxTag[i]} VF_LGARG); }   // both the lvalue and the rvalue constructor
		else if constexpr (Z::CTX == 2) new (where) Instance(W.ctxObj[W.ctxOf[i]] VF_LGARG);
		else new (where) Instance(&W.ctxObj[W.ctxOf[i]] VF_LGARG);
#undef VF_LGARG
#undef VF_LGONLY
	}

	static bool construct(uint8_t i, uint8_t fill) {
		Slot& s = slots[i];
		const uint8_t declaredFill = fill;   // recorded in the trace; the override (fill-independence shadow runs) must not show up there
		if (W.opts.fillOverride >= 0) fill = static_cast<uint8_t>(W.opts.fillOverride);
		memset(s.store, fill, sizeof s.store);
		if (W.opts.fillOverride >= 256) {
			// word patterns: the storage spells the little-endian 32-bit integer 1 or 2 at one of the four byte phases (small enumerator values are
			// what a forgotten initialiser of an enum / counter / flag member would have to contain to be taken for real data)
			const unsigned id = unsigned(W.opts.fillOverride - 256) % 8u, phase = id & 3u, value = 1u + (id >> 2);
			for (size_t k = 0; k < sizeof s.store; ++k) s.store[k] = ((k + 4u - phase) % 4u == 0) ? static_cast<unsigned char>(value) : 0;
		}
		bool lg = (W.cs->flags & 1) != 0;
		if (W.opts.loggerMode == 1) lg = false;
		if (W.opts.loggerMode == 2) lg = true;
#ifndef VF_LOG
		lg = false;
#endif
		W.ctxOf[i] = i; W.ctxTag[i] = 100 + i;
		W.cur = i;
		note(NOTE_CONSTRUCT, declaredFill, lg);
		s.alive = true; s.dead = false; s.logger = lg;
		W.activating = !Z::IS_MANUAL;
		if (W.opts.uninit) s.heap = aligned_alloc(64, (sizeof(Instance) + 127) / 64 * 64);
		const bool ok = guarded(i, [&] { constructInto(i, lg); });
		W.activating = false;
		return ok;
	}

	static bool destroy(uint8_t i) {
		Slot& s = slots[i];
		if (!s.alive) return true;
		bool ok = true;
		if (!s.dead) {
			W.cur = i;
			note(NOTE_DESTROY);
			if constexpr (Z::IS_MANUAL) {
				if (ptr(i)->isActive()) ok = guarded(i, [&] { ptr(i)->exit(); });
			}
			if (ok) ok = guarded(i, [&] { ptr(i)->~Instance(); });
		}
		if (s.heap) { free(s.heap); s.heap = nullptr; }
		s.alive = false;
		return ok;
	}

	static bool isActive(uint8_t i) {
		Slot& s = slots[i];
		if (!s.alive || s.dead) return false;
		return ptr(i)->activeStateId() != ffsm2::INVALID_STATE_ID;
	}

	// ---- operations ------------------------------------------------------------------------------
	static void begin(uint8_t inst, uint8_t code, uint8_t a, uint8_t b, uint8_t c) {
		W.cur = inst;
		Ev& e = pushEv(EV_BEGIN); e.method = code; e.a = a; e.b = b; e.c = c;
		observe(inst, e);
		observeLocal(inst, e);
#ifdef VF_SERIAL
		observeSerial(inst, e);
#endif
	}
	static void end(uint8_t inst, uint8_t code, uint8_t a, uint8_t b, uint8_t c) {
		W.cur = inst;
		Ev& e = pushEv(EV_END); e.method = code; e.a = a; e.b = b; e.c = c;
		observe(inst, e);
		observeLocal(inst, e);
#ifdef VF_SERIAL
		observeSerial(inst, e);
#endif
		if (g_allocs) { note(NOTE_ALLOC, g_allocs > 255 ? 255 : static_cast<uint8_t>(g_allocs)); g_allocs = 0; }
	}

	// returns false if the instance was abandoned (budget)
	static bool execOp(Op op, uint8_t idx, const Op* actSource) {
		W.opIdx = idx;
		uint8_t inst = static_cast<uint8_t>(op.inst % 3);
		const uint8_t scenario = static_cast<uint8_t>(W.cs->scenario % SC_COUNT);
		if (inst == 2 && (!slots[2].alive || slots[2].dead)) inst = 0;
		if (scenario == SC_REPLICA || scenario == SC_FORK) inst = 0;
		if (W.forkTarget >= 0) inst = static_cast<uint8_t>(W.forkTarget);
		if (slots[inst].dead || !slots[inst].alive) return true;
		uint8_t code = static_cast<uint8_t>(op.code % OP_COUNT);
		auto norm = [&](uint8_t to) { code = to; ++W.tr->normalised; };
		// feature availability
#ifndef VF_PLANS
		if (code == OP_PLAN_APPEND || code == OP_PLAN_CLEAR || code == OP_PLAN_REMOVE || code == OP_SUCCEED || code == OP_FAIL) norm(OP_UPDATE);
#endif
#ifndef VF_SERIAL
		if (code == OP_SAVE || code == OP_LOAD) norm(OP_UPDATE);
#endif
#ifndef VF_HISTORY
		if (code == OP_REPLAY) norm(OP_UPDATE);
#endif
#ifndef VF_LOG
		if (code == OP_LOGGER) norm(OP_QUERY);
#endif
		if (scenario == SC_REPLICA && (code == OP_LOAD || code == OP_REPLAY || code == OP_RECONSTRUCT || code == OP_COPY)) norm(OP_UPDATE);
		if (!Z::IS_MANUAL && (code == OP_ENTER || code == OP_EXIT)) norm(OP_UPDATE);
		const bool active = isActive(inst);
		if (Z::IS_MANUAL) {
			if (!active && code != OP_ENTER && code != OP_SAVE && code != OP_LOAD && code != OP_REPLAY && code != OP_COPY && code != OP_RECONSTRUCT && code != OP_LOGGER) norm(OP_ENTER);
			if (active && code == OP_ENTER) norm(OP_UPDATE);
		}
#ifdef VF_SERIAL
		if (code == OP_LOAD && !saved[op.a & 1]) norm(OP_SAVE);
#endif
		if (!HAS_PAY) op.pay = 0;
		const bool tmplForm = ((op.a / N) & 1) != 0;   // templated form of the call (changeTo<T>(), succeed<T>() ...) instead of the id form
		Instance& m = *ptr(inst);
		W.op = actSource; W.actPos = 0; W.stickyOp = nullptr;
		W.quiet = false; W.hostile = false;
		bool ok = true;
#ifdef VF_PLANS
		// plan handles obtained BEFORE the operation and looked at AFTER it: a Plan / CPlan is a live view of the machine's plan, not a snapshot
		const bool holdViews = code == OP_UPDATE || code == OP_REACT || code == OP_IMMEDIATE || code == OP_PLAN_APPEND || code == OP_PLAN_CLEAR || code == OP_PLAN_REMOVE ||
			code == OP_SUCCEED || code == OP_FAIL || code == OP_CHANGE || code == OP_QUERY;
		const Instance& heldFrom = m;
		std::optional<decltype(heldFrom.plan())> heldC;
		std::optional<decltype(m.plan())> heldP;
		if (holdViews) { heldC.emplace(heldFrom.plan()); heldP.emplace(m.plan()); }
#endif
		switch (code) {
		case OP_UPDATE:
			begin(inst, code, 0, 0, 0);
			ok = guarded(inst, [&] { m.update(); });
			break;
		case OP_REACT: case OP_QUERY: {
			// where the event object lives: on the caller's stack, in the context object (inside the machine when the context is held by value),
			// or in a state object inside the machine
			uint8_t place = static_cast<uint8_t>((op.a >> 1) & 3);
			if (place == 1 && code == OP_REACT) place = 0;   // 1: query() with a const-qualified event object
			if (place == 2 && Z::CTX == 0) place = 0;
			if ((op.a >> 3) % 5 >= 3) {
				// scalar event types: a plain int (3) and an enum (4)
				const uint8_t et = static_cast<uint8_t>((op.a >> 3) % 5);
				begin(inst, code, et, op.b, 0);
				int iv = op.b; Sig sv = (op.b & 1) ? Sig::Tick : Sig::Tock;
				if (et == 3) { W.evtAddr = &iv; if (code == OP_REACT) ok = guarded(inst, [&] { const int& ev = iv; m.react(ev); }); else ok = guarded(inst, [&] { const Instance& cm = m; cm.query(iv); }); }
				else { W.evtAddr = &sv; if (code == OP_REACT) ok = guarded(inst, [&] { const Sig& ev = sv; m.react(ev); }); else ok = guarded(inst, [&] { const Instance& cm = m; cm.query(sv); }); }
				W.evtAddr = nullptr;
				op.a = et;
				break;
			}
			if ((op.a >> 3) % 5 == 2) {
				// third event type: a pointer; every other value of b is the null pointer ("no message") -- an event value like any other
				begin(inst, code, 2, op.b, 0);
				const EvA target{op.b};
				EvP pv = (op.b & 1) ? nullptr : &target;
				W.evtAddr = &pv;
				if (code == OP_REACT) ok = guarded(inst, [&] { const EvP& ev = pv; m.react(ev); });
				else ok = guarded(inst, [&] { const Instance& cm = m; cm.query(pv); });
				W.evtAddr = nullptr;
				op.a = 2;
				break;
			}
			op.a &= 1;
			begin(inst, code, op.a, op.b, place);
			EvA la{op.b}; EvB lb{op.b, 7};
			EvA* pa = &la; EvB* pb = &lb;
			if (place == 2) {
				if constexpr (Z::CTX == 1 || Z::CTX == 2) { pa = &m.context().mailA; pb = &m.context().mailB; }
				else if constexpr (Z::CTX == 3) { pa = &m.context()->mailA; pb = &m.context()->mailB; }
			} else if (place == 3) {
				auto& st = m.template access<StT<CFG, 0, Z::kind(0)>>();
				pa = &st.inboxA; pb = &st.inboxB;
			}
			*pa = EvA{op.b}; *pb = EvB{op.b, 7};
			if (code == OP_REACT) {
				if (op.a == 0) { const EvA& ev = *pa; W.evtAddr = &ev; ok = guarded(inst, [&] { m.react(ev); }); }
				else { const EvB& ev = *pb; W.evtAddr = &ev; ok = guarded(inst, [&] { m.react(ev); }); }
			} else if (place == 1) {
				if (op.a == 0) { const EvA& ev = *pa; W.evtAddr = &ev; ok = guarded(inst, [&] { const Instance& cm = m; cm.query(ev); }); }
				else { const EvB& ev = *pb; W.evtAddr = &ev; ok = guarded(inst, [&] { const Instance& cm = m; cm.query(ev); }); }
			} else {
				if (op.a == 0) { W.evtAddr = pa; ok = guarded(inst, [&] { const Instance& cm = m; cm.query(*pa); }); }
				else { W.evtAddr = pb; ok = guarded(inst, [&] { const Instance& cm = m; cm.query(*pb); }); }
			}
			W.evtAddr = nullptr;
			break; }
		case OP_CHANGE: case OP_IMMEDIATE: {
			op.a = normState(op.a);
#ifdef VF_HISTORY
			if constexpr (HAS_PAY) {
				// hand the library a reference into its own storage: the payload of the previous transition
				if ((W.cs->flags & 2) && (op.b & 1) && m.previousTransition().payload()) {
					const Payload* src = m.previousTransition().payload();
					uint8_t has, seed, exact, aligned; readPay(src, has, seed, exact, aligned);
					begin(inst, code, op.a, 0, seed);
					ok = guarded(inst, [&] { if (code == OP_CHANGE) m.changeWith(op.a, *src); else m.immediateChangeWith(op.a, *src); });
					op.pay = seed;
					break;
				}
			}
#endif
			begin(inst, code, op.a, 0, op.pay);
			ok = guarded(inst, [&] {
				if constexpr (HAS_PAY) {
					if (op.pay) {
						if (tmplForm) Tmpl<CFG>::call(m, op.a, code == OP_CHANGE ? 4 : 5, op.pay);
						else if (code == OP_CHANGE) m.changeWith(op.a, makePay<Payload>(op.pay)); else m.immediateChangeWith(op.a, makePay<Payload>(op.pay));
						return;
					}
				}
				if (tmplForm) Tmpl<CFG>::call(m, op.a, code == OP_CHANGE ? 0 : 1);
				else if (code == OP_CHANGE) m.changeTo(op.a); else m.immediateChangeTo(op.a);
			});
			break; }
#ifdef VF_PLANS
		case OP_PLAN_APPEND: {
			op.a = normState(op.a); op.b = normState(op.b);
			begin(inst, code, op.a, op.b, op.pay);
			bool r = false;
			ok = guarded(inst, [&] {
				if (tmplForm) { auto pl = m.plan(); r = Tmpl<CFG>::planAppend(pl, op.a, op.b, op.pay); return; }
				if constexpr (HAS_PAY) { if (op.pay) { r = m.plan().changeWith(op.a, op.b, makePay<Payload>(op.pay)); return; } }
				r = m.plan().change(op.a, op.b);
			});
			note(NOTE_APPEND_RESULT, r, op.a, op.b);
			break; }
		case OP_PLAN_CLEAR:
			begin(inst, code, 0, 0, 0);
			ok = guarded(inst, [&] { m.plan().clear(); });
			break;
		case OP_PLAN_REMOVE: {
			begin(inst, code, op.a, 0, 0);
			const Ev pre = W.tr->ev[W.tr->n - 1];
			uint32_t visited = 0; bool seqOk = true;
			TaskV appended[2]; uint32_t nApp = 0, matchedApp = 0; unsigned removedSoFar = 0;
			ok = guarded(inst, [&] {
				auto p = m.plan();
				unsigned pos = 0;
				for (auto it = p.begin(); it && visited <= static_cast<uint32_t>(CAP) + 2u; ++it, ++pos) {
					if (visited < pre.planLen) { if (!(taskOf(*it) == W.tr->pool[pre.planOff + visited])) seqOk = false; }
					else {
						// beyond the tasks the plan held before: only tasks appended during this iteration, in their order
						const TaskV tv = taskOf(*it);
						while (matchedApp < nApp && !(appended[matchedApp] == tv)) ++matchedApp;
						if (matchedApp >= nApp) seqOk = false; else ++matchedApp;
					}
					++visited;
					if (pos < pre.planLen && ((op.a >> (pos % 8)) & 1)) {
						it.remove();
						note(NOTE_ITER_REMOVE, static_cast<uint8_t>(pos - removedSoFar)); ++removedSoFar;
						if ((op.b & 1) && nApp == 0) {
							// append while the iterator stands on the task it has just removed
							for (int q = 0; q < 2; ++q) {
								const uint8_t o = normState(static_cast<uint8_t>(op.b / 2 + q)), d = normState(static_cast<uint8_t>(op.a / 3 + q));
								Ev& a = pushEv(EV_ACT); a.state = NOID; a.method = ACT_PLAN_APPEND; a.a = o; a.b = d; a.c = 0;
								const bool r = p.change(o, d);
								note(NOTE_APPEND_RESULT, r, o, d);
								if (r) { TaskV tv; tv.origin = o; tv.dest = d; appended[nApp++] = tv; }
							}
						}
					}
				}
			});
			if (visited < pre.planLen) seqOk = false;   // every task the plan held before the iteration is visited, removals and appends notwithstanding
			note(NOTE_ITER, seqOk, static_cast<uint8_t>(visited > 255 ? 255 : visited));
			break; }
		case OP_SUCCEED: case OP_FAIL:
			op.a = normState(op.a);
			begin(inst, code, op.a, 0, 0);
			ok = guarded(inst, [&] { if (tmplForm) Tmpl<CFG>::call(m, op.a, code == OP_SUCCEED ? 2 : 3); else if (code == OP_SUCCEED) m.succeed(op.a); else m.fail(op.a); });
			break;
#endif
		case OP_ENTER:
			if constexpr (Z::IS_MANUAL) {
				begin(inst, code, 0, 0, 0);
				W.activating = true;
				ok = guarded(inst, [&] { m.enter(); });
				W.activating = false;
			}
			break;
		case OP_EXIT:
			if constexpr (Z::IS_MANUAL) {
				begin(inst, code, 0, 0, 0);
				ok = guarded(inst, [&] { m.exit(); });
			}
			break;
#ifdef VF_SERIAL
		case OP_SAVE: {
			op.a &= 1;
			begin(inst, code, op.a, 0, 0);
			Guarded& g = bufs[op.a];
			g.c0 = 0x1122334455667788ull; g.c1 = 0x8877665544332211ull;
			for (unsigned k = 0; k < sizeof(g.buf.data()); ++k) g.buf.data()[k] = 0xEE;   // stale contents, put there the way a user would (a received packet)
			ok = guarded(inst, [&] { const Instance& cm = m; cm.save(g.buf); });
			saved[op.a] = true; savedAct[op.a] = m.activeStateId();
			{
				const bool canary = g.c0 == 0x1122334455667788ull && g.c1 == 0x8877665544332211ull;
				uint16_t bytes = 0;
				for (unsigned k = 0; k < sizeof(g.buf.data()) && k < 2; ++k) bytes |= static_cast<uint16_t>(g.buf.data()[k]) << (8 * k);
				note(NOTE_CANARY, canary, static_cast<uint8_t>(bytes & 0xFF), static_cast<uint8_t>(bytes >> 8));
				if (saved[0] && saved[1]) {
					const bool eq = bufs[0].buf == bufs[1].buf, ne = bufs[0].buf != bufs[1].buf;
					const bool mem = memcmp(bufs[0].buf.data(), bufs[1].buf.data(), sizeof(bufs[0].buf.data())) == 0;
					note(NOTE_BUFEQ, eq, ne, mem);
					note(NOTE_BUFACT, savedAct[0], savedAct[1]);
				}
			}
			break; }
		case OP_LOAD: {
			op.a &= 1;
			begin(inst, code, op.a, savedAct[op.a], 0);
			ok = guarded(inst, [&] { m.load(bufs[op.a].buf); });
			break; }
#endif
#ifdef VF_HISTORY
		case OP_REPLAY: {
			if constexpr (Z::IS_MANUAL) {
				if (!active) {
					op.a = normState(op.a);
					begin(inst, code, op.a, 1, 0);
					ok = guarded(inst, [&] { m.replayEnter(op.a); });
					break;
				}
			}
			const bool invalid = op.a >= 0xF0;
			const uint8_t dest = invalid ? ffsm2::INVALID_STATE_ID : normState(op.a);
			begin(inst, code, dest, 0, 0);
			bool r = false;
			ok = guarded(inst, [&] { r = m.replayTransition(dest); });
			note(NOTE_REPLAY_RESULT, r);
			break; }
#endif
		case OP_LOGGER:
#ifdef VF_LOG
			begin(inst, code, op.a & 1, 0, 0);
			if (W.opts.loggerMode == 0) { m.attachLogger((op.a & 1) ? &logger : nullptr); slots[inst].logger = (op.a & 1) != 0; }
#endif
			break;
		case OP_SETCONTEXT:
			if constexpr (Z::CTX == 3) {
				op.a = static_cast<uint8_t>(op.a % 3);
				begin(inst, code, op.a, 0, 0);
				m.setContext(&W.ctxObj[op.a]);
				W.ctxOf[inst] = op.a;
			} else { begin(inst, OP_OBSERVE, 0, 0, 0); code = OP_OBSERVE; }
			break;
		case OP_MOVE: {
			begin(inst, code, 0, 0, 0);
			alignas(64) static unsigned char tmp[sizeof(Instance) + 64];
			void* const home = slots[inst].heap ? slots[inst].heap : static_cast<void*>(slots[inst].store);
			ok = guarded(inst, [&] {
				Instance* const t1 = new (tmp) Instance(static_cast<Instance&&>(*ptr(inst)));
				W.mute = true; ptr(inst)->~Instance(); W.mute = false;             // the moved-from husk (an automatic machine exits in its destructor)
				if (!slots[inst].heap) memset(slots[inst].store, 0xB7, sizeof slots[inst].store);
				new (home) Instance(static_cast<Instance&&>(*t1));
				W.mute = true; t1->~Instance(); W.mute = false;
			});
			W.mute = false;
			break; }
		case OP_RECONSTRUCT:
			// two windows: the tear-down (bracketed like an op) and a construction window like the initial one
			begin(inst, code, op.a, 0, 0);
			W.quiet = false;
			ok = destroy(inst);
			if (ok) {
				end(inst, code, op.a, 0, 0);
				W.op = actSource;
				ok = construct(inst, op.a);
				if (ok) { W.cur = inst; Ev& e = pushEv(EV_END); e.method = OP_RECONSTRUCT; observe(inst, e); }
			}
			W.op = nullptr;
			lastCode = code;
			return ok;
		case OP_COPY:
			return execCopy(inst, idx);
		default: break;
		}
		if (ok) end(inst, code, op.a, op.b, op.pay);
#ifdef VF_PLANS
		if (ok && holdViews && W.tr->n > 0) {
			const Ev& fresh = W.tr->ev[W.tr->n - 1];   // the END event carries a fresh snapshot
			bool trunc = false;
			const uint32_t k1 = iterate(*heldC, scratch[0], CAP + 1, trunc);
			const bool c1 = sameSeq(W.tr->pool + fresh.planOff, fresh.planLen, scratch[0], k1) && (static_cast<bool>(*heldC) == ((fresh.planFlags & PF_BOOL) != 0));
			const uint32_t k2 = iterate(*heldP, scratch[1], CAP + 1, trunc);
			const bool c2 = sameSeq(W.tr->pool + fresh.planOff, fresh.planLen, scratch[1], k2) && (static_cast<bool>(*heldP) == ((fresh.planFlags & PF_BOOL) != 0));
			note(NOTE_HELD, c1 && !trunc, c2 && !trunc);
		}
#endif
		W.op = nullptr;
		lastCode = code;
		return ok;
	}

	static bool execCopy(uint8_t src, uint8_t idx) {
		W.opIdx = idx;
		if (src == 2) src = 0;
		if (slots[2].alive) { W.quiet = true; W.op = nullptr; const bool ok = destroy(2); W.quiet = false; if (!ok) return false; }
		begin(src, OP_COPY, src, 2, 0);
		Slot& d = slots[2];
		memset(d.store, static_cast<uint8_t>(~W.cs->fill), sizeof d.store);
		W.ctxOf[2] = W.ctxOf[src]; W.ctxTag[2] = W.ctxTag[src];
		d.alive = true; d.dead = false; d.logger = slots[src].logger;
		W.cur = 2;
		note(NOTE_COPY, src, 2);
		W.op = nullptr;
		void* where = d.store;
		if (W.opts.uninit) { d.heap = aligned_alloc(64, (sizeof(Instance) + 127) / 64 * 64); where = d.heap; }
		g_allocs = 0;
		const bool ok = guarded(2, [&] { new (where) Instance(*const_cast<const Instance*>(ptr(src))); });
		if (!ok) return false;
		end(src, OP_COPY, src, 2, 0);
		begin(2, OP_COPY, src, 2, 1);
		end(2, OP_COPY, src, 2, 1);
		return true;
	}

#ifdef VF_HISTORY
	// replica scenario: mirror the authority's last step on instance 1 using only replay calls
	static bool sync(uint8_t idx, uint8_t code, bool wasActive) {
		W.opIdx = idx;
		if (slots[0].dead || slots[1].dead || !slots[1].alive) return true;
		Instance& a = *ptr(0);
		Instance& r = *ptr(1);
		const bool aActive = isActive(0), rActive = isActive(1);
		W.op = nullptr; W.hostile = true; W.quiet = false;
		bool ok = true;
		const auto prev = a.previousTransition();
		if (aActive && !rActive) {
			if constexpr (Z::IS_MANUAL) {
				const uint8_t dest = static_cast<bool>(prev) ? prev.destination : 0;
				begin(1, OP_REPLAY, dest, 1, 0);
				ok = guarded(1, [&] { r.replayEnter(dest); });
				note(NOTE_SYNC, dest, 1, 1);
				if (ok) end(1, OP_REPLAY, dest, 1, 0);
			}
		} else if (!aActive && rActive) {
			if constexpr (Z::IS_MANUAL) {
				begin(1, OP_EXIT, 0, 0, 0);
				ok = guarded(1, [&] { r.exit(); });
				if (ok) end(1, OP_EXIT, 0, 0, 0);
			}
		} else if (aActive && (code == OP_UPDATE || code == OP_REACT || code == OP_IMMEDIATE || code == OP_ENTER || code == OP_RECONSTRUCT) && static_cast<bool>(prev)) {
			(void) wasActive;
			const uint8_t dest = prev.destination;
			begin(1, OP_REPLAY, dest, 0, 0);
			bool ret = false;
			ok = guarded(1, [&] { ret = r.replayTransition(dest); });
			note(NOTE_SYNC, dest, 0, ret);
			if (ok) end(1, OP_REPLAY, dest, 0, 0);
		} else {
			begin(1, OP_OBSERVE, 0, 0, 0);  // pure observation of the replica (no call made)
			end(1, OP_OBSERVE, 0, 0, 0);
		}
		W.hostile = false;
		return ok;
	}
#endif

	// ---- a whole case ----------------------------------------------------------------------------
	static void fillInfo(Info& f) {
		f = Info{};
		f.cfg = CFG; f.N = N; f.L = Z::L; f.head = Z::HAS_HEAD; f.manual = Z::IS_MANUAL;
		if constexpr (HAS_PAY) { f.paySize = sizeof(Payload); f.payAlign = alignof(Payload); }
		f.ctx = Z::CTX; f.cap = CAP;
		static_assert(N <= MASK_BITS, "the trace describes machines of up to 128 states");
		for (int i = 0; i < N && i < MASK_BITS; ++i) {
			f.inj[i] = Z::inj(i); if (Z::bare(i)) f.bare |= (Mask(1) << i);
			f.defMask[i] = Z::kind(i) == 0 ? 0xFFFF : Z::kind(i) == 1 ? 0 : (Z::kind(i) == 2 || Z::kind(i) == 4) ? DEF_A : DEF_B;
		}
		f.headInj = Z::headInj();
#ifdef VF_PLANS
		f.hasPlans = 1;
#endif
#ifdef VF_SERIAL
		f.hasSerial = 1; f.serialBits = SerialBuffer::BIT_CAPACITY;
#endif
#ifdef VF_HISTORY
		f.hasHistory = 1;
#endif
#ifdef VF_LOG
		f.hasLog = 1;
#endif
#ifdef VF_VERBOSE
		f.verbose = 1;
#endif
		f.instSize = sizeof(Instance);
	}

	static void run(const Case& cs, Trace& tr, const RunOpts& opts) {
		tr.reset();
		fillInfo(tr.info);
		tr.info.scenario = static_cast<uint8_t>(cs.scenario % SC_COUNT); tr.info.fill = cs.fill; tr.info.loggerAtCtor = cs.flags & 1;
		W = World{};
		g_allocs = 0; g_inCall = false;
		W.tr = &tr; W.cs = &cs; W.opts = opts;
		W.cbBudget = 64u * Z::L + 64u;
		for (auto& s : slots) { s.alive = false; s.dead = false; s.heap = nullptr; s.logger = false; }
#ifdef VF_SERIAL
		saved[0] = saved[1] = false; savedAct[0] = savedAct[1] = NOID;
#endif
		const uint8_t scenario = static_cast<uint8_t>(cs.scenario % SC_COUNT);
		bool ok = true;
		// construction: the callbacks of instance 0's automatic activation consume cs.ctor
		W.opIdx = 0xFF;
		Op ctorOp; ctorOp.acts = cs.ctor;
		{
			W.op = &ctorOp; W.actPos = 0; W.stickyOp = nullptr; W.quiet = false;
			ok = construct(0, cs.fill);
			if (ok) { Ev& e = pushEv(EV_END); e.method = OP_RECONSTRUCT; observe(0, e); }
		}
		if (ok) {
			W.op = nullptr; W.quiet = true;
			ok = construct(1, static_cast<uint8_t>(cs.fill ^ 0x5A));
			W.quiet = false;
			if (ok) { Ev& e = pushEv(EV_END); e.method = OP_RECONSTRUCT; observe(1, e); }
		}
#ifdef VF_HISTORY
		if (ok && scenario == SC_REPLICA) ok = sync(0xFF, OP_RECONSTRUCT, false);
#else
		(void) scenario;
#endif
		for (size_t i = 0; ok && i < cs.ops.size(); ++i) {
			const Op& op = cs.ops[i];
			const uint8_t code = static_cast<uint8_t>(op.code % OP_COUNT);
			if (scenario == SC_FORK && code == OP_COPY && slots[0].alive && !slots[0].dead) {
				ok = fork(i);
				break;
			}
			const bool wasActive = isActive(0);
			ok = execOp(op, static_cast<uint8_t>(i), &op);
#ifdef VF_HISTORY
			if (ok && scenario == SC_REPLICA) ok = sync(static_cast<uint8_t>(i), lastCode, wasActive);
#else
			(void) wasActive;
#endif
			if (tr.overflow) break;
		}
		// tear down: quiet callbacks
		W.opIdx = 0xFE; W.op = nullptr; W.quiet = true; W.hostile = false;
		for (int i = 2; i >= 0; --i) if (slots[i].alive && !slots[i].dead) destroy(static_cast<uint8_t>(i));
		for (auto& s : slots) { if (s.heap) { free(s.heap); s.heap = nullptr; } s.alive = false; }
		if (tr.overflow) note(NOTE_OVERFLOW);
	}
	static uint8_t lastCode;

	// fork-and-compare (C17): copy instance 0 at op k, run the remaining ops on the copy, re-observe the
	// original, then run the same ops on the original.
	static bool fork(size_t k) {
		if (!execCopy(0, static_cast<uint8_t>(k))) return false;
		const Case& cs = *W.cs;
#ifdef VF_SERIAL
		Guarded keep[2]; bool keepSaved[2]; uint8_t keepAct[2];
		memcpy(static_cast<void*>(keep), static_cast<const void*>(bufs), sizeof keep); memcpy(keepSaved, saved, sizeof saved); memcpy(keepAct, savedAct, sizeof savedAct);
#endif
		bool ok = true;
		for (int phase = 0; phase < 2 && ok; ++phase) {
			const uint8_t target = phase == 0 ? 2 : 0;
			W.cur = target; W.forkTarget = target;
			note(NOTE_FORK_BEGIN, static_cast<uint8_t>(phase), target);
#ifdef VF_SERIAL
			memcpy(static_cast<void*>(bufs), static_cast<const void*>(keep), sizeof keep); memcpy(saved, keepSaved, sizeof saved); memcpy(savedAct, keepAct, sizeof savedAct);
#endif
			for (size_t i = k + 1; ok && i < cs.ops.size(); ++i) {
				Op op = cs.ops[i];
				uint8_t code = static_cast<uint8_t>(op.code % OP_COUNT);
				if (code == OP_COPY || code == OP_RECONSTRUCT) { op.code = OP_UPDATE; }
				op.inst = target;
				ok = execOp(op, static_cast<uint8_t>(i), &cs.ops[i]);
			}
			W.cur = target; W.forkTarget = -1;
			note(NOTE_FORK_END, static_cast<uint8_t>(phase), target);
			if (ok && phase == 0) { begin(0, OP_OBSERVE, 0, 0, 0); end(0, OP_OBSERVE, 0, 0, 0); }  // the original must be untouched
		}
		return ok;
	}
};

template <int CFG> typename Runner<CFG>::Slot Runner<CFG>::slots[3];
template <int CFG> uint8_t Runner<CFG>::lastCode = 0;
#ifdef VF_LOG
template <int CFG> typename Runner<CFG>::Lg Runner<CFG>::logger;
#endif
#ifdef VF_SERIAL
template <int CFG> typename Runner<CFG>::Guarded Runner<CFG>::bufs[2];
template <int CFG> bool Runner<CFG>::saved[2];
template <int CFG> uint8_t Runner<CFG>::savedAct[2];
#endif
#ifdef VF_PLANS
template <int CFG> TaskV Runner<CFG>::scratch[2][260];
#endif

template <int CFG, int I, int J> bool Inj<CFG, I, J, false>::thisOk() const {
	using R = Runner<CFG>;
	if constexpr (I == HEAD_TAG) return this == static_cast<const Inj*>(&R::ptr(W.cur)->template access<Hd<CFG>>());
	else return this == static_cast<const Inj*>(&R::ptr(W.cur)->template access<StT<CFG, I, ZCfg<CFG>::kind(I)>>());
}
template <int CFG, int I, int J> bool Inj<CFG, I, J, true>::thisOk() const {
	using R = Runner<CFG>;
	if constexpr (I == HEAD_TAG) return this == static_cast<const Inj*>(&R::ptr(W.cur)->template access<Hd<CFG>>());
	else return this == static_cast<const Inj*>(&R::ptr(W.cur)->template access<StT<CFG, I, ZCfg<CFG>::kind(I)>>());
}
// both overloads of access<T>() (const and non-const machine) must hand out the very object whose callback is running
template <class T, class M> bool sameObject(const T* self, M& m) {
	const M& cm = m;
	const T& viaConst = cm.template access<T>();   // bound to a reference: if the overload returned a copy this would be a different object
	return self == &m.template access<T>() && self == &viaConst;
}
template <int CFG, int I> bool StT<CFG, I, 0>::thisOk() const { return sameObject(this, *Runner<CFG>::ptr(W.cur)); }
template <int CFG, int I> bool StT<CFG, I, 2>::thisOk() const { return sameObject(this, *Runner<CFG>::ptr(W.cur)); }
template <int CFG, int I> bool StT<CFG, I, 3>::thisOk() const { return sameObject(this, *Runner<CFG>::ptr(W.cur)); }
template <int CFG, int I> bool StT<CFG, I, 4>::thisOk() const { return sameObject(this, *Runner<CFG>::ptr(W.cur)); }
template <int CFG, int I> bool StT<CFG, I, 5>::thisOk() const { return sameObject(this, *Runner<CFG>::ptr(W.cur)); }
template <int CFG> bool Hd<CFG>::thisOk() const { return sameObject(this, *Runner<CFG>::ptr(W.cur)); }

using RunFn = void (*)(const Case&, Trace&, const RunOpts&);
extern RunFn g_zoo[ZOO_COUNT];

}  // namespace vf
