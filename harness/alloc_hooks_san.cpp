// Allocation counter for the sanitizer builds: uses the sanitizer runtime's malloc/free hooks.
#include <cstddef>
#include <cstdint>

namespace vf { extern volatile bool g_inCall; extern volatile uint32_t g_allocs; }

extern "C" int __sanitizer_install_malloc_and_free_hooks(void (*malloc_hook)(const volatile void*, size_t), void (*free_hook)(const volatile void*));

namespace {
void onMalloc(const volatile void*, size_t) { if (vf::g_inCall) ++vf::g_allocs; }
void onFree(const volatile void*) { if (vf::g_inCall) ++vf::g_allocs; }
struct Install { Install() { __sanitizer_install_malloc_and_free_hooks(&onMalloc, &onFree); } } install;
}
