// Case = (zoo member, memory fill, scenario, operation list with per-operation action lists).
// No FFSM2 dependency. The same bytes are the replay file.
#pragma once
#include <cstdint>
#include <cstdio>
#include <cstring>
#include <string>
#include <vector>

namespace vf {

enum OpCode : uint8_t {
	OP_UPDATE = 0,
	OP_REACT,        // a & 1 = event type, (a >> 1) & 3 = where the event object lives (0, 1 caller's stack; 2 the context object; 3 a state object inside the machine), b = event value
	OP_QUERY,        // a = event type
	OP_CHANGE,       // a = destination, pay = payload seed (0 = changeTo); b & 1 with transition history: pass previousTransition()'s payload by reference instead
	OP_IMMEDIATE,    // a = destination, pay
	OP_PLAN_APPEND,  // a = origin, b = destination, pay
	OP_PLAN_CLEAR,
	OP_PLAN_REMOVE,  // a = bit mask over iteration positions (pos % 8) to remove through the iterator; b & 1: append up to two tasks right after the first removal, before the iterator advances
	OP_SUCCEED,      // a = state id
	OP_FAIL,         // a = state id
	OP_ENTER,        // manual activation
	OP_EXIT,         // manual activation
	OP_SAVE,         // a = buffer slot (0/1)
	OP_LOAD,         // a = buffer slot (0/1)
	OP_REPLAY,       // a = destination (>= 0xF0 -> the documented invalid id)
	OP_COPY,         // copy-construct inst into slot 2 (scenario FORK: fork-and-compare)
	OP_RECONSTRUCT,  // destroy + re-construct inst, a = new fill byte
	OP_LOGGER,       // a&1: attach / detach
	OP_SETCONTEXT,   // pointer contexts only: setContext(&ctxObj[a % 3])
	OP_MOVE,         // relocate the instance: move-construct it into a temporary, destroy the husk, move-construct it back (everything must survive)
	OP_COUNT,
	OP_OBSERVE = 100 // pseudo-op: pure observation bracket emitted by the runner (never decoded from a case)
};

enum ActKind : uint8_t {
	ACT_NONE = 0,
	ACT_REQUEST,      // x = destination, pay = payload seed (0 = changeTo)
	ACT_CANCEL,       // guards only
	ACT_SUCCEED_SELF,
	ACT_FAIL_SELF,
	ACT_SUCCEED_ID,   // x
	ACT_FAIL_ID,      // x
	ACT_PLAN_APPEND,  // x = origin, y = destination, pay
	ACT_PLAN_CLEAR,
	ACT_PLAN_REMOVE,  // x = mask
	ACT_REQUEST_REL,  // request the state (own id + 1 + x) mod N -- lets one sticky action ping-pong between states forever
	ACT_REQUEST_FWD,  // x = destination; (y / 4) & 1: through the machine object instead of the control; the payload is passed BY REFERENCE to library-owned storage: y % 4 = 0 control.request(), 1 pendingTransition() (guards),
	                  // 2 currentTransition(), 3 previousTransitions(); recorded in the trace as an ordinary request carrying that payload (plain changeTo if there is none)
	ACT_LOGGER,       // x & 1: attach / detach the logger from inside the callback
	ACT_M_REPORT,     // succeed(x) / fail(x) (y & 1) called on the MACHINE from inside the callback (also from enter / exit / reenter)
	ACT_M_REQUEST,    // changeTo / changeWith called on the MACHINE (not the control) from inside the callback: x = destination, pay; the requester is nobody
	ACT_COUNT
};
static constexpr uint8_t ACT_CHAIN = 0x80;   // next action belongs to the same callback (max 3 per callback)
static constexpr uint8_t ACT_STICKY = 0x40;  // the action cursor does not advance: every further callback of this operation repeats this action
static constexpr uint8_t ACT_KIND_MASK = 0x3F;

enum Scenario : uint8_t { SC_FREE = 0, SC_REPLICA = 1, SC_FORK = 2, SC_COUNT };

struct Action { uint8_t kind = 0, x = 0, y = 0, pay = 0; };

struct Op {
	uint8_t code = 0, inst = 0, a = 0, b = 0, pay = 0;
	std::vector<Action> acts;
};

struct Case {
	uint8_t cfg = 0, fill = 0, scenario = 0, flags = 0;  // flags bit0: logger attached at construction; bit1: external requests may pass previousTransition()'s payload by reference
	std::vector<Action> ctor;  // actions consumed by the callbacks of instance 0's automatic activation
	std::vector<Op> ops;
};

static constexpr size_t MAX_OPS = 48;
static constexpr size_t MAX_ACTS = 96;

// ---- byte codec (total: every byte string decodes to a case) -------------------------------
inline Case decode(const uint8_t* d, size_t n) {
	Case c;
	size_t i = 0;
	auto get = [&]() -> uint8_t { return i < n ? d[i++] : 0; };
	c.cfg = get(); c.fill = get(); c.scenario = get(); c.flags = get();
	{
		size_t na = get();
		if (na > 16) na = 16;
		for (size_t k = 0; k < na && i < n; ++k) { Action a; a.kind = get(); a.x = get(); a.y = get(); a.pay = get(); c.ctor.push_back(a); }
	}
	while (i < n && c.ops.size() < MAX_OPS) {
		Op op;
		op.code = get(); op.inst = get(); op.a = get(); op.b = get(); op.pay = get();
		size_t na = get();
		if (na > MAX_ACTS) na = MAX_ACTS;
		for (size_t k = 0; k < na && i < n; ++k) {
			Action a; a.kind = get(); a.x = get(); a.y = get(); a.pay = get();
			op.acts.push_back(a);
		}
		c.ops.push_back(op);
	}
	return c;
}

inline std::vector<uint8_t> encode(const Case& c) {
	std::vector<uint8_t> o{c.cfg, c.fill, c.scenario, c.flags};
	{
		size_t na = c.ctor.size() > 16 ? 16 : c.ctor.size();
		o.push_back(static_cast<uint8_t>(na));
		for (size_t k = 0; k < na; ++k) { const Action& a = c.ctor[k]; o.push_back(a.kind); o.push_back(a.x); o.push_back(a.y); o.push_back(a.pay); }
	}
	for (const Op& op : c.ops) {
		o.push_back(op.code); o.push_back(op.inst); o.push_back(op.a); o.push_back(op.b); o.push_back(op.pay);
		size_t na = op.acts.size() > MAX_ACTS ? MAX_ACTS : op.acts.size();
		o.push_back(static_cast<uint8_t>(na));
		for (size_t k = 0; k < na; ++k) { const Action& a = op.acts[k]; o.push_back(a.kind); o.push_back(a.x); o.push_back(a.y); o.push_back(a.pay); }
	}
	return o;
}

inline bool readFile(const char* path, std::vector<uint8_t>& out) {
	FILE* f = fopen(path, "rb"); if (!f) return false;
	uint8_t buf[4096]; size_t r;
	while ((r = fread(buf, 1, sizeof buf, f)) > 0) out.insert(out.end(), buf, buf + r);
	fclose(f); return true;
}
inline bool writeFile(const char* path, const std::vector<uint8_t>& d) {
	FILE* f = fopen(path, "wb"); if (!f) return false;
	fwrite(d.data(), 1, d.size(), f); fclose(f); return true;
}

inline const char* opName(uint8_t code) {
	static const char* n[] = {"update", "react", "query", "change", "immediate", "plan.append", "plan.clear", "plan.remove",
		"succeed", "fail", "enter", "exit", "save", "load", "replay", "copy", "reconstruct", "logger", "setContext", "move"};
	if (code == OP_OBSERVE) return "observe";
	return n[code % OP_COUNT];
}
inline const char* actName(uint8_t kind) {
	static const char* n[] = {"-", "request", "cancel", "succeed()", "fail()", "succeed(id)", "fail(id)", "plan.append", "plan.clear", "plan.remove", "request+", "request&", "logger", "machine.report", "machine.request"};
	return n[(kind & ACT_KIND_MASK) % ACT_COUNT];
}

// raw rendering (before normalisation against a machine); the trace rendering shows the executed form
inline std::string render(const Case& c) {
	char b[160];
	std::string s;
	snprintf(b, sizeof b, "case cfg=%u fill=0x%02x scenario=%u flags=%u ops=%zu\n", c.cfg, c.fill, c.scenario % SC_COUNT, c.flags, c.ops.size());
	s += b;
	if (!c.ctor.empty()) {
		s += "  [ctor] acts:";
		for (const Action& a : c.ctor) { snprintf(b, sizeof b, " %s(%u,%u,p%u)%s", actName(a.kind), a.x, a.y, a.pay, (a.kind & ACT_STICKY) ? ((a.kind & ACT_CHAIN) ? "*+" : "*;") : ((a.kind & ACT_CHAIN) ? "+" : ";")); s += b; }
		s += "\n";
	}
	for (size_t i = 0; i < c.ops.size(); ++i) {
		const Op& op = c.ops[i];
		snprintf(b, sizeof b, "  [%zu] i%u %s a=%u b=%u pay=%u", i, op.inst % 3, opName(op.code), op.a, op.b, op.pay);
		s += b;
		if (!op.acts.empty()) {
			s += "  acts:";
			for (const Action& a : op.acts) {
				snprintf(b, sizeof b, " %s(%u,%u,p%u)%s", actName(a.kind), a.x, a.y, a.pay, (a.kind & ACT_STICKY) ? ((a.kind & ACT_CHAIN) ? "*+" : "*;") : ((a.kind & ACT_CHAIN) ? "+" : ";"));
				s += b;
			}
		}
		s += "\n";
	}
	return s;
}

inline uint64_t fnv(const uint8_t* d, size_t n, uint64_t h = 1469598103934665603ull) {
	for (size_t i = 0; i < n; ++i) { h ^= d[i]; h *= 1099511628211ull; }
	return h;
}

}  // namespace vf
