// Probe (C20): a fixed array can be iterated with a range-based for, visiting each element once in index order.
#ifdef VF_DEV
#include <ffsm2/machine_dev.hpp>
#else
#include <ffsm2/machine.hpp>
#endif
int main() {
	ffsm2::detail::StaticArrayT<int, 5> a;
	for (int i = 0; i < 5; ++i) a[i] = 10 + i;
	int k = 0;
	for (auto& x : a) { if (x != 10 + k) return 1; ++k; }
	if (k != 5) return 2;
	const auto& ca = a; k = 0;
	for (const auto& x : ca) { if (x != 10 + k) return 3; ++k; }
	return k == 5 ? 0 : 4;
}
