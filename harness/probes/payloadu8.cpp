// Probe (C07): a one-byte unsigned payload (the same type as ffsm2::StateID) is a trivially copyable payload type like any other.
#define FFSM2_ENABLE_PLANS
#ifdef VF_DEV
#include <ffsm2/machine_dev.hpp>
#else
#include <ffsm2/machine.hpp>
#endif
#include <stdint.h>
using M = ffsm2::MachineT<ffsm2::Config::PayloadT<uint8_t>>;
struct A; struct B;
using FSM = M::PeerRoot<A, B>;
static int seen = -1;
struct A : FSM::State { void update(FullControl& c) { c.changeTo<A>(); c.changeWith<B>(uint8_t(7)); } };
struct B : FSM::State { void enter(PlanControl& c) { if (c.currentTransition().payload()) seen = *c.currentTransition().payload(); } };
int main() {
	FSM::Instance m;
	m.update();
	if (!m.isActive<B>() || seen != 7) return 1;
	m.changeWith<A>(uint8_t(9));
	m.immediateChangeWith(0, uint8_t(3));
	return m.isActive<A>() ? 0 : 2;
}
