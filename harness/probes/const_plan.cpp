// Probe (C06/C08): the const control handed to query() offers plan() like every other control flavour.
#define FFSM2_ENABLE_PLANS
#ifdef VF_DEV
#include <ffsm2/machine_dev.hpp>
#else
#include <ffsm2/machine.hpp>
#endif
using M = ffsm2::Machine;
struct A; struct B;
using FSM = M::PeerRoot<A, B>;
struct Q { int tasks; };
struct A : FSM::State {
	void query(Q& q, ConstControl& c) const { q.tasks = 0; auto p = c.plan(); for (auto it = p.begin(); it; ++it) ++q.tasks; }
};
struct B : FSM::State {};
int main() {
	FSM::Instance m;
	m.plan().change(0, 1);
	Q q{-1};
	const FSM::Instance& cm = m;
	cm.query(q);
	return q.tasks == 1 ? 0 : 1;
}
