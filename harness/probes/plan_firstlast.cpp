// Probe (C10): Plan::first()/last() on a plan obtained from a non-const machine and from a const copy of it must be usable.
#define FFSM2_ENABLE_PLANS
#ifdef VF_DEV
#include <ffsm2/machine_dev.hpp>
#else
#include <ffsm2/machine.hpp>
#endif
using M = ffsm2::Machine;
struct A; struct B; struct C;
using FSM = M::PeerRoot<A, B, C>;
struct A : FSM::State {}; struct B : FSM::State {}; struct C : FSM::State {};
int main() {
	FSM::Instance m;
	m.plan().change(0, 1);
	m.plan().change(1, 2);
	auto p = m.plan();
	if (!p) return 1;
	if (p.first().origin != 0 || p.first().destination != 1) return 2;
	if (p.last().origin != 1 || p.last().destination != 2) return 3;
	const auto cp = m.plan();
	if (cp.first().origin != 0 || cp.last().destination != 2) return 4;
	const FSM::Instance& cm = m;
	auto q = cm.plan();
	if (q.first().origin != 0 || q.last().destination != 2) return 5;
	return 0;
}
