"""Per-property check logic."""
import glob
import json
import os
import shutil
import sys
import time

import vfcore as vc

CLASS_NAMES = {
    0: "transitions>=2", 1: "guard_cancel", 2: "rounds>=2", 3: "veto_after_pass", 4: "limit_leftover", 5: "load", 6: "replay",
    7: "reactivation", 8: "copy", 9: "request_overwrite", 10: "phase_request", 11: "cb_state0_inactive", 12: "cb_with_request",
    13: "payload_mix", 14: "plan_fire", 15: "plan_fire_payload", 16: "plan_multi_origin_fire", 17: "planSucceeded", 18: "planFailed",
    19: "report_without_plan", 20: "plan_full", 21: "plan_refill", 22: "injections>=2", 23: "logger_toggle", 24: "replica_multiround",
    25: "save_load_diff", 26: "copy_nontrivial", 27: "payload_align>=4", 28: "exit_with_request", 29: "activation_redirect",
    30: "fork", 31: "cancel_logged", 32: "reenter", 33: "replay_invalid", 34: "budget_abort", 35: "query", 36: "react",
    37: "plan_edit_in_callback", 38: "sufficiency_trigger",
}

NONTRIVIAL_RULE = {
    1: ">= 2 applied transitions and at least one of {guard veto, >= 2 guard rounds, load, replay, re-activation, copy}",
    2: ">= 2 requests before one processing point, or a processing step with >= 2 guard rounds",
    3: "a guard round cancelled after an earlier round passed, or >= 2 rounds with a cancel",
    4: "a processing step that reaches exactly L guard rounds with a request left over",
    5: "a phase callback requested a transition or reported a task result before the cycle's last phase callback",
    6: "a callback ran while state 0 was not active and a callback ran with an outstanding request",
    7: "payload-free and payload-carrying requests overwrote each other before processing, or a plan task with payload fired",
    8: "a cycle in which >= 1 task fires while >= 2 tasks with >= 2 distinct origins are planned",
    9: "a cycle with a report and no task ever appended, or a cycle delivering planSucceeded / planFailed",
    10: "the plan reached full capacity (append refused or plan length == capacity)",
    11: "an authority step with a veto after a pass or a re-entry, together with replay or >= 2 transitions",
    12: "a load where saver and loader activity differ",
    15: "a delivery to a state with >= 2 injections",
    16: "logger attached/detached mid-history and a plan-fired transition or a cancellation occurred",
    17: "copy taken with non-empty history or plan, or with an outstanding request",
    18: "plan at full capacity or a request with a payload of alignment >= 4",
}

ASSUMPTIONS = [
    "generated histories respect the asserted preconditions of the library (DESIGN.md section 3): calls only on active machines, ids < N, no no-arg succeed()/fail() from the root head",
    "configuration space sampled by a fixed zoo of 20 machine types (N 1..70, head/headless, automatic/manual, 11 payload types incl. 320 bytes / 64-aligned, L in {1,2,3,4,5,6,7,12,255}, capacities 1..254, 4 context kinds, 0..5 injections, virtual and per-event-type overloads)",
    "search never establishes absence; counts below are what this run generated and executed",
]

# cfgs with alignment >= 16 payloads (6, 9), injections (1,3,5,6,8,12), payload (all but 0,4,10,11)
ALL_CFGS = list(range(20))
ZOO = {
    1: dict(profiles=["general", "guards", "serial"], quick=720000, thorough=8640000, fs=["ALL", "MIN"]),
    2: dict(profiles=["general", "guards", "serial"], quick=720000, thorough=8640000, fs=["ALL", "MIN"]),
    3: dict(profiles=["guards", "general"], quick=720000, thorough=8640000, fs=["ALL", "MIN"]),
    4: dict(profiles=["guards"], quick=600000, thorough=7200000, fs=["ALL", "MIN"]),
    5: dict(profiles=["phases", "general"], quick=600000, thorough=7200000, fs=["ALL", "MIN"]),
    6: dict(profiles=["general", "guards", "plans"], quick=720000, thorough=8640000, fs=["ALL", "MIN"], probes=["const_plan"]),
    7: dict(profiles=["general", "guards", "plans"], quick=720000, thorough=8640000, fs=["ALL", "MIN"], cfgs=[1, 2, 3, 5, 6, 7, 8, 9, 12, 14, 16, 17, 18, 19], san=20000, probes=["payloadu8"]),
    8: dict(profiles=["plans"], quick=900000, thorough=10800000, fs=["ALL", ["PLANS"]]),
    9: dict(profiles=["plans"], quick=600000, thorough=7200000, cfgs=[0, 1, 3, 4, 6, 7, 8, 9, 11, 13, 16, 18], san=20000, fs=["ALL", ["PLANS"]]),
    10: dict(profiles=["plans"], quick=600000, thorough=7200000, probes=["plan_firstlast"], fs=["ALL", ["PLANS"]]),
    11: dict(profiles=["replica", "general", "guards"], quick=720000, thorough=8640000, fs=["ALL", ["HISTORY"]]),
    12: dict(profiles=["serial"], quick=600000, thorough=7200000, fs=["ALL", ["SERIAL"]]),
    15: dict(profiles=["general", "phases"], quick=600000, thorough=7200000, fs=["ALL", "MIN"], cfgs=[1, 3, 5, 6, 8, 12, 15, 16, 17, 18, 19]),
    16: dict(profiles=["logging"], quick=360000, thorough=4320000, fs=["ALL", "VERBOSE", ["LOG"]]),
    17: dict(profiles=["fork", "general"], quick=360000, thorough=4320000, san=20000, fs=["ALL", "MIN"]),
    18: dict(profiles=["general", "plans", "guards"], quick=270000, thorough=3240000, san=30000, fs=["ALL", "MIN"]),
}
MAX_SIZE = {"quick": 30, "thorough": 45}


def pid(n):
    return "C%02d" % n


def class_hist(stats):
    return {CLASS_NAMES.get(int(k), k): v for k, v in sorted(stats.get("classes", {}).items(), key=lambda kv: int(kv[0]))}


class Result:
    def __init__(self, prop, tier, seed):
        self.prop, self.tier, self.seed = prop, tier, seed
        self.t0 = time.time()
        self.violations = []      # (replay_path, message)
        self.known = []
        self.coverage = {"evaluations": 0, "distinct_nontrivial": 0, "samples": [], "engines": {}}
        self.inconclusive = []
        self.open_findings, self.fixed = vc.known_findings()

    def violation(self, replay, msg):
        for f in self.open_findings:
            if f.get("property") == self.prop and f.get("match") and f["match"].replace("_", " ") in msg:
                if f["text"] not in self.known:
                    self.known.append(f["text"])
                return
        self.violations.append((replay, msg))

    def add_stats(self, name, stats):
        self.coverage["evaluations"] += stats.get("evaluations", 0)
        self.coverage["distinct_nontrivial"] += stats.get("distinct_nontrivial", 0)
        for s in stats.get("samples", []):
            if len(self.coverage["samples"]) < 4:
                self.coverage["samples"].append(s[:6000])
        e = {k: stats.get(k, 0) for k in ("evaluations", "runs", "nontrivial", "distinct_nontrivial", "overflow", "normalised", "excluded_activation_veto")}
        e["classes"] = class_hist(stats)
        e["zoo_members"] = stats.get("cfgs", {})
        self.coverage["engines"][name] = e

    def finish(self, rule, extra=None, assumptions=None):
        cov = self.coverage
        cov["rule"] = rule
        if extra:
            cov.update(extra)
        if self.inconclusive:
            cov["inconclusive"] = self.inconclusive
        cov["known_findings_hit"] = self.known
        if not cov["samples"]:
            cov["samples"] = ["(no sample recorded)"]
        vc.write_evidence(self.prop, self.tier, self.seed, cov, time.time() - self.t0, len(self.violations), assumptions or ASSUMPTIONS)
        for k in self.known:
            text = " ".join(tok for tok in k[len("finding:"):].split() if not tok.startswith("property=") and not tok.startswith("match=")) if k.startswith("finding:") else k
            print("KNOWN-FINDING: property=%s %s" % (self.prop, text))
        for replay, msg in self.violations[:5]:
            print("VIOLATION property=%s replay=%s" % (self.prop, replay))
            print("  " + msg.strip().replace("\n", "\n  ")[:1500])
        if self.violations:
            return 1
        print("%s %s: held on %d evaluations (%d distinct non-trivial) in %.1fs" % (self.prop, self.tier, cov["evaluations"], cov["distinct_nontrivial"], time.time() - self.t0))
        return 0


def need_zoo(fs, variant, tool, R):
    ok, path = vc.zoo_binary(fs, variant, tool)
    if not ok:
        print("INCONCLUSIVE: harness %s/%s/%s does not build against /repo: %s" % (fs, variant, tool, path))
        try:
            print(open(path).read()[-3000:])
        except OSError:
            pass
        return None
    return path


def zoo_check(n, tier, seed):
    P = pid(n)
    cfg = ZOO[n]
    R = Result(P, tier, seed)
    od = vc.out_dir(P)
    cases = cfg[tier]
    max_size = MAX_SIZE[tier]
    fss = cfg.get("fs", ["ALL"])
    # 0. API probes owned by this property
    for variant in ("shipped", "dev"):
        pr = vc.probes(variant)
        for name in cfg.get("probes", []):
            if name in pr and not pr[name]["ok"]:
                R.violation(pr[name]["log"], "probe %s (%s header): a program using only the documented API does not compile/link/behave: see log" % (name, variant))
    exes = {}
    fsname = lambda fs: fs if isinstance(fs, str) else ("+".join(fs) or "MIN")
    for fs in fss:
        for variant in ("shipped", "dev"):
            exe = need_zoo(fs, variant, "gcc", R)
            if not exe:
                return 2
            exes[(fsname(fs), variant)] = exe
    fss = [fsname(fs) for fs in fss]
    first = exes[(fss[0], "shipped")]
    # 1. regression replays
    reg = sorted(glob.glob(os.path.join(vc.REGRESS, P, "*.case")))
    nreg = 0
    for (fs, variant), exe in exes.items():
        bad = vc.replay_files(exe, n, reg)
        nreg += len(reg)
        for path, out in bad:
            R.violation(path, "regression case reproduces (%s/%s): %s" % (fs, variant, out))
    R.coverage["regression_cases_replayed"] = nreg
    # 2. generated search (rapidcheck, sharded)
    combos = [(fs, variant, prof) for fs in fss for variant in ("shipped", "dev") for prof in cfg["profiles"]]
    per = max(2000, cases // len(combos))
    workers_per = max(1, vc.NCPU // min(len(combos), 4))
    for i, (fs, variant, prof) in enumerate(combos):
        stats, failures, crashes = vc.run_pbt(exes[(fs, variant)], n, prof, per, max_size, seed * 7 + i, workers_per, cfg.get("cfgs"), tag="%s-%s-" % (fs, variant))
        R.add_stats("rapidcheck:%s:%s:%s" % (fs, variant, prof), stats)
        for path, msg in failures:
            ok, out = vc.confirm(exes[(fs, variant)], n, path)
            if ok:
                R.violation(path, "%s  [%s/%s header, profile %s; shrunk by rapidcheck, reproduced 3/3; render: %s.txt]" % (msg, fs, variant, prof, path))
            else:
                R.inconclusive.append("failure did not reproduce 3/3: " + path)
        for rc, out in crashes:
            if rc == 97:
                # the library did not return from a call on a generated, in-contract history
                if os.path.exists(out) and vc.confirm_hang(exes[(fs, variant)], n, out):
                    msg = "an FFSM2 call never returned on this generated history (watchdog 20 s, reproduced 3/3 under a 10 s alarm; legal cases take microseconds) [%s/%s header, profile %s]" % (fs, variant, prof)
                    if n in (4, 10, 18):
                        R.violation(out, msg)
                    else:
                        R.inconclusive.append(msg + " case: " + out)
                else:
                    R.inconclusive.append("watchdog fired but the hang did not reproduce: " + str(out))
                continue
            # a crash of the plain build is a memory-safety matter (C18); other properties report it as inconclusive
            if n == 18:
                p = os.path.join(od, "crash-%s-%s-%s.log" % (fs, variant, prof))
                open(p, "w").write(out)
                R.violation(p, "harness process crashed (rc=%d) while executing generated cases" % rc)
            else:
                R.inconclusive.append("worker crashed rc=%d (%s/%s/%s)" % (rc, fs, variant, prof))
        if R.violations:
            break
    # 3. sanitizer replay of an emitted corpus (memory-safety sensitive properties; all properties in thorough)
    san_n = cfg.get("san", 0) if tier == "quick" else max(cfg.get("san", 0) * 5, 40000)
    if san_n and not R.violations:
        rcode = san_replay(n, R, first, san_n, seed, cfg)
        if rcode == 2:
            return 2
    if n in (9, 17, 18) and not R.violations:
        # memcheck sees every read of an indeterminate value, whatever bytes happen to be there (fill patterns only see the values they try)
        if valgrind_replay(n, R, seed, cfg, count=3000 if tier == "thorough" else 320) == 2:
            return 2
    # 4. coverage-guided fuzzing (thorough)
    if tier == "thorough" and not R.violations:
        rcode = fuzz_campaign(n, R, seed, cfg, secs=int(os.environ.get("VF_FUZZ_SECS", "240")))
        if rcode == 2:
            return 2
    import vfextra
    if not R.violations and n in (1, 4, 10):
        if vfextra.cfgperm_check(R, n, tier, seed) == 2:
            return 2
    if not R.violations and n == 8:
        if vfextra.c08_extra(R, tier, seed) == 2:
            return 2
    if not R.violations and n == 10:
        if vfextra.c10_extra(R, tier, seed) == 2:
            return 2
    if not R.violations and n == 12:
        if vfextra.c12_extra(R, tier, seed) == 2:
            return 2
    if not R.violations and n == 18:
        if vfextra.c18_extra(R, tier, seed) == 2:
            return 2
    return R.finish("cases = (zoo member, memory fill, scenario, operation list with per-callback action lists) generated by rapidcheck (structured generators, profile-weighted) "
                    "and, in the thorough tier, by libFuzzer over the byte encoding; distinct = distinct encoded case (per worker, summed); non-trivial = " + NONTRIVIAL_RULE[n])


def san_replay(n, R, gcc_exe, count, seed, cfg):
    P = pid(n)
    od = vc.out_dir(P)
    env = {"ASAN_OPTIONS": "detect_leaks=0:abort_on_error=0:allocator_may_return_null=1", "UBSAN_OPTIONS": "print_stacktrace=1:halt_on_error=1"}
    total = 0
    for variant in ("shipped", "dev"):
        exe = need_zoo(cfg.get("fs", ["ALL"])[0], variant, "san", R)
        if not exe:
            return 2
        shards = vc.NCPU // 2
        per = max(200, count // (2 * shards))
        emit_cmds, corpora = [], []
        for w in range(shards):
            cp = os.path.join(od, "san-%s-%d.bin" % (variant, w))
            corpora.append(cp)
            c = ["env", "RC_PARAMS=seed=%d max_success=%d max_size=30" % (seed * 131 + w + 17, per), gcc_exe, "emit", "--count", str(per), "--out", cp, "--profile", cfg["profiles"][w % len(cfg["profiles"])]]
            if cfg.get("cfgs"):
                c += ["--cfgs", ",".join(str(x) for x in cfg["cfgs"])]
            emit_cmds.append(c)
        vc.parallel(emit_cmds)
        cmds = [[exe, "digest", "--mode", "0", "--prop", str(n), cp] for cp in corpora]
        outs = vc.parallel(cmds, env=env)
        # build differential (C18): a program without undefined behaviour does the same under g++ -O1 and under clang -O1 with the sanitizers;
        # a difference in anything observable (first field after the index = digest of the whole trace) is a symptom of undefined or
        # unspecified behaviour even when no sanitizer has a check for it
        plain = need_zoo(cfg.get("fs", ["ALL"])[0], variant, "gcc", R) if n == 18 else None
        pouts = vc.parallel([[plain, "digest", "--mode", "0", "--prop", "-1", cp] for cp in corpora]) if plain else []
        for cp, (rcp, outp), (rcs, outs_) in zip(corpora, pouts, outs) if plain else []:
            a = [l.split()[:2] for l in outp.splitlines() if l and l[0].isdigit()]
            b = [l.split()[:2] for l in outs_.splitlines() if l and l[0].isdigit()]
            for k in range(min(len(a), len(b))):
                if a[k] != b[k]:
                    case_path = extract_case(cp, k, os.path.join(od, "build-diff-%s-%d.case" % (variant, k)))
                    R.violation(case_path, "generated case #%d behaves differently when the same sources are built with g++ -O1 and with clang++ -O1 -fsanitize=address,undefined (%s header): "
                                "behaviour that depends on the compiler is undefined or unspecified behaviour (render the case with ./check --show on both builds)" % (k, variant))
                    break
            if R.violations:
                break
        for cp, (rc, out) in zip(corpora, outs):
            lines = [l for l in out.splitlines() if l and l[0].isdigit()]
            total += len(lines)
            if rc not in (0, 1) or "ERROR: AddressSanitizer" in out or "runtime error:" in out:
                # locate the failing case: it is the one after the last printed digest line
                idx = len(lines)
                case_path = extract_case(cp, idx, os.path.join(od, "san-crash-%s-%d.case" % (variant, idx)))
                log = case_path + ".log"
                open(log, "w").write(out[-6000:])
                msg = "sanitizer report while executing a generated case (%s header): %s" % (variant, first_report_line(out))
                if n in (7, 9, 17, 18):
                    R.violation(case_path, msg + "  [log: %s]" % log)
                else:
                    R.inconclusive.append(msg)
            elif rc == 1:
                for l in out.splitlines():
                    if l.startswith("# VIOLATION"):
                        k = int(l.split("case")[1].split(":")[0])
                        case_path = extract_case(cp, k, os.path.join(od, "san-viol-%s-%d.case" % (variant, k)))
                        R.violation(case_path, l + "  [sanitized build, %s header]" % variant)
                        break
    R.coverage["engines"]["sanitizer_replay(ASan+UBSan)"] = {"evaluations": total}
    R.coverage["evaluations"] += total
    return 0


def valgrind_replay(n, R, seed, cfg, count=3000):
    """thorough tier, C09/C17/C18: memcheck over generated cases whose instances are constructed in genuinely uninitialised heap memory"""
    P = pid(n)
    od = vc.out_dir(P)
    total = 0
    for variant in ("shipped", "dev"):
        exe = need_zoo(cfg.get("fs", ["ALL"])[0], variant, "gcc", R)
        if not exe:
            return 2
        d = vc.fresh_dir(os.path.join(od, "vg-" + variant))
        c = ["env", "RC_PARAMS=seed=%d max_success=%d max_size=30" % (seed * 17 + 3, count), exe, "emit", "--count", str(count), "--out", os.path.join(d, "all.bin"), "--dir", d, "--profile", cfg["profiles"][0]]
        if cfg.get("cfgs"):
            c += ["--cfgs", ",".join(str(x) for x in cfg["cfgs"])]
        vc.run(c)
        files = sorted(glob.glob(os.path.join(d, "seed-*.case")))
        shards = [files[i::vc.NCPU] for i in range(vc.NCPU)]
        cmds = [["valgrind", "-q", "--error-exitcode=9", "--track-origins=yes", exe, "replay", "--prop", str(n), "--quiet", "1", "--uninit", "1"] + s for s in shards if s]
        outs = vc.parallel(cmds, timeout=3000)
        for s, (rc, out) in zip([s for s in shards if s], outs):
            total += len(s)
            if rc == 9 or "Conditional jump or move depends on uninitialised" in out or "Invalid read" in out or "Invalid write" in out:
                # locate one offending case
                bad = None
                for f in s:
                    rc2, o2 = vc.run(["valgrind", "-q", "--error-exitcode=9", exe, "replay", "--prop", str(n), "--quiet", "1", "--uninit", "1", f], timeout=300)
                    if rc2 == 9:
                        bad = (f, o2)
                        break
                f, o2 = bad if bad else (s[0], out)
                dest = os.path.join(od, "valgrind-%s.case" % variant)
                shutil.copy(f, dest)
                open(dest + ".log", "w").write(o2[-6000:])
                R.violation(dest, "valgrind memcheck: use of an uninitialised value / invalid access on a machine constructed in uninitialised memory (%s header): %s" % (variant, first_report_line(o2 + "\n" + "\n".join(l for l in o2.splitlines() if l.startswith("==")))))
                break
            elif rc == 1 and "VIOLATION" in out:
                R.inconclusive.append("predicate violation under valgrind (should have been found by the plain build): " + out[-300:])
    R.coverage["engines"]["valgrind_memcheck(uninitialised heap placement)"] = {"evaluations": total}
    R.coverage["evaluations"] += total
    return 0


def first_report_line(out):
    for l in out.splitlines():
        if "runtime error:" in l or "ERROR: AddressSanitizer" in l or "SUMMARY:" in l or "uninitialised" in l or "Invalid read" in l or "Invalid write" in l:
            return l.strip()[:400]
    return out.strip().splitlines()[-1][:400] if out.strip() else "(no output)"


def extract_case(corpus, idx, dest):
    blob = open(corpus, "rb").read()
    i, k = 0, 0
    while i + 2 <= len(blob):
        ln = blob[i] | (blob[i + 1] << 8)
        i += 2
        if k == idx:
            open(dest, "wb").write(blob[i:i + ln])
            return dest
        i += ln
        k += 1
    open(dest, "wb").write(b"")
    return dest


def fuzz_campaign(n, R, seed, cfg, secs=90):
    P = pid(n)
    od = vc.out_dir(P)
    total_execs = 0
    corpus_entries = 0
    for variant in ("shipped", "dev"):
        exe = need_zoo(cfg.get("fs", ["ALL"])[0], variant, "fuzz", R)
        if not exe:
            return 2
        gcc_exe = need_zoo(cfg.get("fs", ["ALL"])[0], variant, "gcc", R)
        for mode in ("seeded", "empty"):
            work = vc.fresh_dir(os.path.join(od, "fuzz-%s-%s" % (variant, mode)))
            corpus = os.path.join(work, "corpus")
            art = os.path.join(work, "artifacts")
            viol = os.path.join(work, "viol")
            for d in (corpus, art, viol):
                os.makedirs(d)
            if mode == "seeded":
                vc.run(["env", "RC_PARAMS=seed=%d max_success=300 max_size=25" % (seed + 5), gcc_exe, "emit", "--count", "300", "--out", os.path.join(work, "seed.bin"), "--dir", corpus,
                        "--profile", cfg["profiles"][0]] + (["--cfgs", ",".join(str(x) for x in cfg["cfgs"])] if cfg.get("cfgs") else []))
                for f in glob.glob(os.path.join(vc.REGRESS, "*", "*.case")):
                    shutil.copy(f, os.path.join(corpus, "reg-" + os.path.basename(f)))
            env = {"VF_PROP": str(n), "VF_OUT": viol, "ASAN_OPTIONS": "detect_leaks=0", "UBSAN_OPTIONS": "print_stacktrace=1:halt_on_error=1"}
            if cfg.get("cfgs"):
                env["VF_CFGS"] = ",".join(str(x) for x in cfg["cfgs"])
            half = max(10, secs // 4)
            rc, out = vc.run([exe, corpus, "-fork=%d" % vc.NCPU, "-max_total_time=%d" % half, "-max_len=1024", "-seed=%d" % (seed * 1000 + 7), "-artifact_prefix=" + art + "/", "-print_final_stats=1",
                              "-ignore_timeouts=1", "-ignore_ooms=1", "-ignore_crashes=0", "-timeout=20", "-rss_limit_mb=3000"], env=env, timeout=half + 120)
            execs = 0
            for l in out.splitlines():
                if "#" in l and "cov:" in l:
                    try:
                        execs = max(execs, int(l.split("#")[1].split(":")[0].split()[0]))
                    except (ValueError, IndexError):
                        pass
            total_execs += execs
            corpus_entries += len(os.listdir(corpus))
            crashes = sorted(glob.glob(os.path.join(art, "crash-*")))
            viols = sorted(glob.glob(os.path.join(viol, "*.case")))
            for v in viols[:3]:
                ok, o2 = vc.confirm(gcc_exe, n, v)
                if ok:
                    R.violation(v, "libFuzzer (%s corpus, %s header) found a violating case; reproduced 3/3 by the replayer: %s" % (mode, variant, "".join(l + " " for l in o2.splitlines() if l.startswith("VIOLATION"))[:600]))
            if crashes and not viols:
                # sanitizer crash without a predicate violation: memory safety / UB (C18 and the properties that name it)
                c = crashes[0]
                rc2, o2 = vc.run([exe, c], env=env, timeout=120)
                if rc2 != 0 and ("runtime error" in o2 or "AddressSanitizer" in o2):
                    dest = os.path.join(od, "fuzz-crash-%s-%s.case" % (variant, mode))
                    shutil.copy(c, dest)
                    open(dest + ".log", "w").write(o2[-6000:])
                    msg = "sanitizer report under libFuzzer (%s header): %s" % (variant, first_report_line(o2))
                    if n in (7, 9, 17, 18):
                        R.violation(dest, msg)
                    else:
                        R.inconclusive.append(msg)
            if R.violations:
                break
        if R.violations:
            break
    R.coverage["engines"]["libFuzzer(ASan+UBSan,fork=%d)" % vc.NCPU] = {"evaluations": total_execs, "corpus_entries": corpus_entries}
    R.coverage["evaluations"] += total_execs
    return 0


# ---------------------------------------------------------------------------------------------------

def check(P, tier, seed):
    try:
        n = int(P[1:])
    except ValueError:
        print("unknown property", P)
        return 2
    import vfextra
    if n in vfextra.CHECKS:
        return vfextra.CHECKS[n](tier, seed)
    if n in ZOO:
        return zoo_check(n, tier, seed)
    print("unknown property", P)
    return 2


def replay(P, path):
    n = int(P[1:])
    import vfextra
    base = os.path.basename(path)
    if path.endswith(".seq"):
        # container harness sequence: <what>-....seq, first byte = capacity
        what = base.split("-")[0]
        cap = open(path, "rb").read(1)[0]
        ok, bins, log = vfextra.container_binaries("shipped", "gcc", vfextra.FULL_SHARDS)
        if not ok:
            print("container harness does not build:", log)
            return 2
        for lo, hi, exe in bins:
            if lo <= cap <= hi:
                rc, out = vc.run([exe, "replay", what, path], timeout=120)
                print(out)
                return rc
        return 2
    if base.startswith("walk-") and path.endswith(".txt"):
        # sizes harness walk: walk-<N>-<head>-<variant>.txt
        parts = base[:-4].split("-")
        key = (int(parts[1]), int(parts[2]), parts[3])
        ok, bins, log, out = vfextra.sizes_binaries([key])
        if not ok:
            print("sizes harness does not build:", log)
            return 2
        rc, out = vc.run([bins[key], "walk", path], timeout=600)
        print(out)
        return 1 if rc != 0 else 0
    if path.endswith(".log") or not path.endswith(".case"):
        print(open(path).read()[-5000:])
        return 1
    ok, exe = vc.zoo_binary(ZOO.get(n, {}).get("fs", ["ALL"])[0], "shipped", "gcc")
    if not ok:
        print("harness does not build:", exe)
        return 2
    rc, out = vc.run([exe, "replay", "--prop", str(n), path])
    print(out)
    return rc


def show(path):
    ok, exe = vc.zoo_binary("ALL", "shipped", "gcc")
    if not ok:
        return 2
    rc, out = vc.run([exe, "show", path])
    print(out)
    return rc


def setup():
    t0 = time.time()
    import vfextra
    ok = True
    for variant in ("shipped", "dev"):
        vc.probes(variant)
    jobs = [("ALL", "shipped", "gcc"), ("ALL", "dev", "gcc"), ("VERBOSE", "shipped", "gcc"), ("VERBOSE", "dev", "gcc"), ("ALL", "shipped", "san"), ("ALL", "dev", "san")]
    for fs, variant, tool in jobs:
        r, p = vc.zoo_binary(fs, variant, tool)
        print("build %s/%s/%s: %s" % (fs, variant, tool, "ok" if r else "FAILED " + p))
        ok = ok and r
    ok = vfextra.setup() and ok
    print("setup done in %.1fs" % (time.time() - t0))
    return 0   # a tree the harness cannot build against is reported by the checks themselves
