"""Core of the FFSM2 verification driver: hashing, content-addressed builds, sharded rapidcheck runs,
libFuzzer campaigns, evidence files, known findings. Python 3 stdlib only."""
import fcntl
import glob
import hashlib
import json
import os
import shutil
import subprocess
import sys
import tempfile
import time

VERIF = os.path.dirname(os.path.dirname(os.path.abspath(__file__)))
REPO = os.environ.get("VF_REPO", "/repo")
BUILD = os.path.join(VERIF, "build")
HARNESS = os.path.join(VERIF, "harness")
EVIDENCE = os.path.join(VERIF, "evidence")
REGRESS = os.path.join(VERIF, "corpus", "regress")
OUT = os.path.join(VERIF, "build", "out")
NCPU = min(16, os.cpu_count() or 4)

FEATURES = {
    "PLANS": "-DFFSM2_ENABLE_PLANS",
    "SERIAL": "-DFFSM2_ENABLE_SERIALIZATION",
    "HISTORY": "-DFFSM2_ENABLE_TRANSITION_HISTORY",
    "LOG": "-DFFSM2_ENABLE_LOG_INTERFACE",
    "VERBOSE": "-DFFSM2_ENABLE_VERBOSE_DEBUG_LOG",
    "STRUCT": "-DFFSM2_ENABLE_STRUCTURE_REPORT",
    "DEBUGTYPE": "-DFFSM2_ENABLE_DEBUG_STATE_TYPE",
    "NOTYPEINDEX": "-DFFSM2_DISABLE_TYPEINDEX",
}
FEATURE_ORDER = ["PLANS", "SERIAL", "HISTORY", "LOG", "VERBOSE", "STRUCT", "DEBUGTYPE", "NOTYPEINDEX"]
FS = {
    "ALL": ["PLANS", "SERIAL", "HISTORY", "LOG", "STRUCT", "DEBUGTYPE"],
    "VERBOSE": ["PLANS", "SERIAL", "HISTORY", "VERBOSE", "STRUCT", "DEBUGTYPE"],
    "NOLOG": ["PLANS", "SERIAL", "HISTORY", "STRUCT", "DEBUGTYPE"],
    "MIN": [],
}


def seed():
    try:
        return int(os.environ.get("VERIF_SEED", "1"))
    except ValueError:
        return 1


def tier(default="quick"):
    t = os.environ.get("VERIF_TIER", default)
    return t if t in ("quick", "thorough") else default


def sha(*chunks):
    h = hashlib.sha256()
    for c in chunks:
        h.update(c if isinstance(c, bytes) else str(c).encode())
        h.update(b"\0")
    return h.hexdigest()


def hash_files(paths):
    h = hashlib.sha256()
    for p in sorted(paths):
        h.update(p.encode())
        try:
            with open(p, "rb") as f:
                h.update(f.read())
        except OSError:
            h.update(b"<missing>")
    return h.hexdigest()


def repo_files():
    fs = [os.path.join(REPO, "include", "ffsm2", "machine.hpp"), os.path.join(REPO, "tools", "join.py")]
    for root, _, names in os.walk(os.path.join(REPO, "development")):
        for n in names:
            fs.append(os.path.join(root, n))
    return fs


_repo_hash = None


def repo_hash():
    global _repo_hash
    if _repo_hash is None:
        _repo_hash = hash_files(repo_files())
    return _repo_hash


def harness_files(sub=""):
    d = os.path.join(HARNESS, sub)
    return [p for p in glob.glob(os.path.join(d, "**", "*"), recursive=True) if os.path.isfile(p)]


def run(cmd, timeout=None, env=None, cwd=None, stdin=None):
    e = dict(os.environ)
    if env:
        e.update(env)
    try:
        p = subprocess.run(cmd, stdout=subprocess.PIPE, stderr=subprocess.STDOUT, timeout=timeout, env=e, cwd=cwd, input=stdin)
        return p.returncode, p.stdout.decode("utf-8", "replace")
    except subprocess.TimeoutExpired as ex:
        out = ex.stdout.decode("utf-8", "replace") if ex.stdout else ""
        return -9, out + "\n<timeout>"


def parallel(cmds, jobs=NCPU, timeout=None, env=None):
    """cmds: list of argv lists. Returns list of (rc, output)."""
    res = [None] * len(cmds)
    running = {}
    idx = 0
    e = dict(os.environ)
    if env:
        e.update(env)
    t0 = time.time()
    while idx < len(cmds) or running:
        while idx < len(cmds) and len(running) < jobs:
            c = cmds[idx]
            f = tempfile.TemporaryFile()
            p = subprocess.Popen(c, stdout=f, stderr=subprocess.STDOUT, env=e)
            running[idx] = (p, f)
            idx += 1
        done = []
        for k, (p, f) in running.items():
            rc = p.poll()
            if rc is not None:
                f.seek(0)
                res[k] = (rc, f.read().decode("utf-8", "replace"))
                f.close()
                done.append(k)
            elif timeout and time.time() - t0 > timeout:
                p.kill()
        for k in done:
            del running[k]
        if not done:
            time.sleep(0.01)
    return res


class Lock:
    def __init__(self, path):
        os.makedirs(os.path.dirname(path), exist_ok=True)
        self.f = open(path, "w")

    def __enter__(self):
        fcntl.flock(self.f, fcntl.LOCK_EX)
        return self

    def __exit__(self, *a):
        fcntl.flock(self.f, fcntl.LOCK_UN)
        self.f.close()


def variant_flags(variant):
    if variant == "dev":
        return ["-DVF_DEV", "-I" + os.path.join(REPO, "development")]
    return ["-I" + os.path.join(REPO, "include")]


def prune_builds(keep=3):
    """keep the build directories of the most recent repo hashes only"""
    try:
        dirs = [d for d in glob.glob(os.path.join(BUILD, "r-*")) if os.path.isdir(d)]
        dirs.sort(key=lambda d: os.path.getmtime(d), reverse=True)
        for d in dirs[keep:]:
            shutil.rmtree(d, ignore_errors=True)
    except OSError:
        pass


def build_root():
    d = os.path.join(BUILD, "r-" + repo_hash()[:12])
    if not os.path.isdir(d):
        os.makedirs(d, exist_ok=True)
        prune_builds()
    else:
        try:
            os.utime(d, None)
        except OSError:
            pass
    return d


ZOO_TUS = [(0, 4), (4, 8), (8, 10), (10, 16), (16, 19), (19, 20)]


def probes(variant):
    """Compile/link probes of public API that the harness would like to use. A failing probe is itself a finding of the
    property that owns the API; the harness then avoids that API so everything else can still be decided."""
    root = os.path.join(build_root(), "probes-" + variant)
    stamp = os.path.join(root, "result.json")
    key = sha(repo_hash(), hash_files(harness_files("probes")), variant)
    with Lock(root + ".lock"):
        if os.path.exists(stamp):
            try:
                r = json.load(open(stamp))
                if r.get("key") == key:
                    return r["probes"]
            except (OSError, ValueError):
                pass
        os.makedirs(root, exist_ok=True)
        res = {}
        srcs = sorted(glob.glob(os.path.join(HARNESS, "probes", "*.cpp")))
        cmds = []
        for s in srcs:
            name = os.path.splitext(os.path.basename(s))[0]
            cmds.append(["g++", "-std=c++11", "-O0", "-w"] + variant_flags(variant) + ["-DFFSM2_ENABLE_PLANS", s, "-o", os.path.join(root, name)])
        outs = parallel(cmds)
        for s, (rc, out) in zip(srcs, outs):
            name = os.path.splitext(os.path.basename(s))[0]
            ok = rc == 0
            if ok:
                rc2, out2 = run([os.path.join(root, name)], timeout=20)
                ok = rc2 == 0
                out += out2
            log = os.path.join(root, name + ".log")
            with open(log, "w") as f:
                f.write(out)
            res[name] = {"ok": ok, "log": log}
        json.dump({"key": key, "probes": res}, open(stamp, "w"))
        return res


def zoo_binary(fs="ALL", variant="shipped", tool="gcc"):
    """Build (or fetch from the cache) the zoo harness. Returns (ok, path_or_log)."""
    feats = FS[fs] if isinstance(fs, str) else list(fs)
    fsname = fs if isinstance(fs, str) else "-".join(feats) or "MIN"
    pr = probes(variant)
    pflags = []
    if pr.get("plan_firstlast", {}).get("ok"):
        pflags.append("-DVF_PLAN_FIRSTLAST")
    if pr.get("const_plan", {}).get("ok"):
        pflags.append("-DVF_CONST_PLAN")
    fflags = [FEATURES[f] for f in feats]
    if tool == "gcc":
        cxx = ["g++", "-std=gnu++17", "-O1", "-g0", "-w"]
        link = ["-lrapidcheck", "-Wl,--wrap=malloc", "-Wl,--wrap=calloc", "-Wl,--wrap=realloc", "-Wl,--wrap=free"]
        mains = ["pbt.cpp", "alloc_hooks.cpp"]
    elif tool == "san":   # clang + ASan + UBSan replayer (same main as gcc but sanitized, no rapidcheck generation needed)
        cxx = ["clang++", "-std=gnu++17", "-O1", "-g", "-w", "-fsanitize=address,undefined", "-fno-sanitize-recover=undefined", "-fno-omit-frame-pointer"]
        link = ["-fsanitize=address,undefined", "-lrapidcheck"]
        mains = ["pbt.cpp", "alloc_hooks_san.cpp"]
    elif tool == "fuzz":
        cxx = ["clang++", "-std=gnu++17", "-O1", "-g", "-w", "-fsanitize=fuzzer-no-link,address,undefined", "-fno-sanitize-recover=undefined", "-fno-omit-frame-pointer"]
        link = ["-fsanitize=fuzzer,address,undefined"]
        mains = ["fuzz.cpp", "alloc_hooks_san.cpp"]
    else:
        raise ValueError(tool)
    srcs = ["zoo_tu.cpp", "zoo.hpp", "trace.hpp", "case.hpp", "analysis.hpp", "predicates.hpp", "predicates.cpp", "predicates_plans.cpp", "eval.hpp"] + mains
    key = sha(repo_hash(), hash_files([os.path.join(HARNESS, s) for s in srcs]), " ".join(cxx + link + fflags + pflags), variant)
    d = os.path.join(build_root(), "zoo-%s-%s-%s-%s" % (fsname, variant, tool, key[:10]))
    exe = os.path.join(d, "vfzoo")
    with Lock(d + ".lock"):
        if os.path.exists(exe):
            return True, exe
        if os.path.exists(os.path.join(d, "FAILED.log")):
            return False, os.path.join(d, "FAILED.log")
        os.makedirs(d, exist_ok=True)
        vflags = variant_flags(variant)
        cmds, objs = [], []
        for i, (lo, hi) in enumerate(ZOO_TUS):
            o = os.path.join(d, "z%d.o" % i)
            objs.append(o)
            cmds.append(cxx + vflags + fflags + pflags + (["-DVF_MAIN_TU"] if i == 0 else []) + ["-DVF_LO=%d" % lo, "-DVF_HI=%d" % hi, "-c", os.path.join(HARNESS, "zoo_tu.cpp"), "-o", o])
        for s in ["predicates.cpp", "predicates_plans.cpp"] + mains:
            o = os.path.join(d, s.replace(".cpp", ".o"))
            objs.append(o)
            cmds.append(cxx + ["-c", os.path.join(HARNESS, s), "-o", o])
        outs = parallel(cmds)
        log = ""
        ok = True
        for c, (rc, out) in zip(cmds, outs):
            if rc != 0:
                ok = False
                log += " ".join(c) + "\n" + out + "\n"
        if ok:
            rc, out = run(cxx + objs + link + ["-o", exe + ".tmp"])
            if rc != 0:
                ok = False
                log += out
        if not ok:
            with open(os.path.join(d, "FAILED.log"), "w") as f:
                f.write(log)
            return False, os.path.join(d, "FAILED.log")
        os.rename(exe + ".tmp", exe)
        for o in objs:
            try:
                os.remove(o)
            except OSError:
                pass
        return True, exe


# ---------------------------------------------------------------------------------------------------
# known findings

def known_findings():
    """returns (open_findings, fixed) ; open finding = dict(property, signature, text)"""
    path = os.path.join(VERIF, "KNOWN_FINDINGS.txt")
    op, fixed = [], []
    if not os.path.exists(path):
        return op, fixed
    for line in open(path):
        line = line.strip()
        if not line or line.startswith("#"):
            continue
        if line.startswith("fixed:"):
            fixed.append(line)
        elif line.startswith("finding:"):
            parts = dict(kv.split("=", 1) for kv in line[len("finding:"):].split() if "=" in kv)
            parts["text"] = line
            op.append(parts)
    return op, fixed


# ---------------------------------------------------------------------------------------------------
# evidence

def write_evidence(pid, tier_, seed_, coverage, wall, violations, assumptions=None, level="exploration"):
    os.makedirs(EVIDENCE, exist_ok=True)
    cov = dict(coverage)
    cov.setdefault("evaluations", 0)
    cov.setdefault("distinct_nontrivial", 0)
    cov.setdefault("rule", "")
    cov.setdefault("samples", [])
    ev = {
        "property_id": pid, "tier": tier_, "seed": int(seed_), "level": level, "coverage": cov,
        "assumptions": assumptions or [], "wall_s": round(float(wall), 2), "violations": int(violations),
    }
    tmp = os.path.join(EVIDENCE, pid + ".json.tmp")
    with open(tmp, "w") as f:
        json.dump(ev, f, indent=1)
    os.replace(tmp, os.path.join(EVIDENCE, pid + ".json"))


def out_dir(pid):
    d = os.path.join(OUT, pid)
    os.makedirs(d, exist_ok=True)
    return d


def fresh_dir(path):
    shutil.rmtree(path, ignore_errors=True)
    os.makedirs(path, exist_ok=True)
    return path


# ---------------------------------------------------------------------------------------------------
# sharded rapidcheck run

def merge_stats(stats_list):
    m = {"evaluations": 0, "runs": 0, "nontrivial": 0, "distinct_nontrivial": 0, "overflow": 0, "normalised": 0,
         "excluded_activation_veto": 0, "classes": {}, "cfgs": {}, "samples": []}
    for s in stats_list:
        for k in ("evaluations", "runs", "nontrivial", "distinct_nontrivial", "overflow", "normalised", "excluded_activation_veto"):
            m[k] += s.get(k, 0)
        for k, v in s.get("classes", {}).items():
            m["classes"][k] = m["classes"].get(k, 0) + v
        for k, v in s.get("cfgs", {}).items():
            m["cfgs"][k] = m["cfgs"].get(k, 0) + v
        if len(m["samples"]) < 4:
            m["samples"].extend(s.get("samples", [])[:1])
    return m


def run_pbt(exe, prop, profile, cases, max_size, seed_, workers, cfgs=None, tag="", timeout=None):
    """Runs `workers` rapidcheck processes. Returns (merged_stats, failures) where failures = list of (replay_path, message)."""
    od = out_dir("C%02d" % prop)
    per = max(1, cases // workers)
    cmds, stat_paths = [], []
    for w in range(workers):
        sp = os.path.join(od, "stats-%s%s-%d.json" % (tag, profile, w))
        try:
            os.remove(sp)
        except OSError:
            pass
        stat_paths.append(sp)
        c = ["env", "RC_PARAMS=seed=%d max_success=%d max_size=%d" % (seed_ * 64 + w + 1, per, max_size), exe, "pbt", "--prop", str(prop), "--profile", profile,
             "--out", od, "--stats", sp, "--tag", "%s%s-s%d-w%d" % (tag, profile, seed_, w)]
        if cfgs:
            c += ["--cfgs", ",".join(str(x) for x in cfgs)]
        cmds.append(c)
    outs = parallel(cmds, jobs=workers, timeout=timeout or 1800)
    stats, failures, crashes = [], [], []
    for w, (sp, (rc, out)) in enumerate(zip(stat_paths, outs)):
        if rc == 97:   # watchdog: a generated case did not finish; the case was saved
            hp = os.path.join(od, "hang-C%02d-%s%s-s%d-w%d.case" % (prop, tag, profile, seed_, w))
            crashes.append((97, hp))
            continue
        try:
            s = json.load(open(sp))
            stats.append(s)
            if s.get("failed") and s.get("replay"):
                failures.append((s["replay"], s.get("message", "")))
        except (OSError, ValueError):
            if rc != 0:
                crashes.append((rc, out[-2000:]))
    return merge_stats(stats), failures, crashes


def confirm_hang(exe, prop, path, times=3):
    """a hang counts only if the replayer (10 s alarm; legal cases take microseconds) hangs every time"""
    for _ in range(times):
        rc, out = run([exe, "replay", "--prop", str(prop), "--quiet", "1", path], timeout=60)
        if rc != 97:
            return False
    return True


def confirm(exe, prop, path, times=3, env=None):
    """a failure counts only if the stand-alone replayer reproduces it every time"""
    for _ in range(times):
        rc, out = run([exe, "replay", "--prop", str(prop), "--quiet", "1", path], timeout=120, env=env)
        if rc != 1 or "VIOLATION" not in out:
            return False, out
    return True, out


def replay_files(exe, prop, files, env=None, extra=None):
    """returns list of (path, output) for files that violate"""
    bad = []
    for i in range(0, len(files), 200):
        chunk = files[i:i + 200]
        rc, out = run([exe, "replay", "--prop", str(prop), "--quiet", "1"] + (extra or []) + chunk, timeout=600, env=env)
        if rc == 1:
            cur = None
            for line in out.splitlines():
                if line.startswith("REPRODUCED "):
                    cur = line.split(" ", 1)[1]
                    bad.append([cur, ""])
                elif line.startswith("VIOLATION") and bad:
                    bad[-1][1] += line + "\n"
        elif rc not in (0, 1):
            bad.append([chunk[0], "replayer crashed (rc=%d): %s" % (rc, out[-1500:])])
    return bad
