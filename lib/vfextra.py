"""Checks that do not run on the zoo harness alone: C19 (feature matrix), and the container / sizes harnesses
(C10 layer 2, C12 sweep, C13, C14, C20)."""
import glob
import itertools
import json
import os
import random
import shutil
import tempfile
import time

import vfcore as vc
import vfprops as vp

CHECKS = {}
SETUPS = []


def setup():
    ok = True
    for f in SETUPS:
        ok = f() and ok
    return ok


# ===================================================================================================
# C19: feature switches orthogonal; shipped header = amalgamation

SWITCHES = vc.FEATURE_ORDER  # 8 switches


def combo_flags(mask):
    return [vc.FEATURES[s] for i, s in enumerate(SWITCHES) if (mask >> i) & 1]


def combo_name(mask):
    return "+".join(s for i, s in enumerate(SWITCHES) if (mask >> i) & 1) or "none"


def join_equal():
    """run tools/join.py on a scratch copy of development/; result must be byte-identical to the shipped header"""
    tmp = tempfile.mkdtemp(prefix="vf-join-")
    try:
        shutil.copytree(os.path.join(vc.REPO, "development"), os.path.join(tmp, "development"))
        os.makedirs(os.path.join(tmp, "tools"))
        os.makedirs(os.path.join(tmp, "include", "ffsm2"))
        shutil.copy(os.path.join(vc.REPO, "tools", "join.py"), os.path.join(tmp, "tools", "join.py"))
        rc, out = vc.run(["python3", "join.py"], cwd=os.path.join(tmp, "tools"), timeout=120)
        gen = os.path.join(tmp, "include", "ffsm2", "machine.hpp")
        if rc != 0 or not os.path.exists(gen):
            return False, "tools/join.py failed: " + out[-1500:]
        a = open(gen, "rb").read()
        b = open(os.path.join(vc.REPO, "include", "ffsm2", "machine.hpp"), "rb").read()
        if a == b:
            return True, ""
        # first differing line
        la, lb = a.split(b"\n"), b.split(b"\n")
        for i, (x, y) in enumerate(zip(la, lb)):
            if x != y:
                return False, "include/ffsm2/machine.hpp differs from the amalgamation of development/ at line %d:\n  shipped : %s\n  join.py : %s" % (i + 1, y[:200].decode("utf-8", "replace"), x[:200].decode("utf-8", "replace"))
        return False, "include/ffsm2/machine.hpp differs from the amalgamation of development/ in length (%d vs %d lines)" % (len(lb), len(la))
    finally:
        shutil.rmtree(tmp, ignore_errors=True)


def norm_sig(s):
    import re
    s = re.sub(r"\[with.*", "", s)
    s = re.sub(r"'[^']*'", "'T'", s)
    s = re.sub(r"\u2018[^\u2019]*\u2019", "'T'", s)
    s = re.sub(r"<.*", "<...>", s)
    return s.strip()[:160]


def c19(tier, seed):
    R = vp.Result("C19", tier, seed)
    od = vc.fresh_dir(vc.out_dir("C19"))
    rng = random.Random(seed)
    api = os.path.join(vc.HARNESS, "matrix", "api.cpp")
    # (a) shipped header == join.py(development)
    ok, msg = join_equal()
    if not ok:
        p = os.path.join(od, "header-diff.log")
        open(p, "w").write(msg)
        R.violation(p, msg)
    # (b) compile matrix of an API-instantiating program
    masks = list(range(256)) + [-1]   # -1 = FFSM2_ENABLE_ALL
    stds = ["c++11", "c++14", "c++17", "c++20"]
    comps = ["g++", "clang++"]
    variants = ["shipped", "dev"]
    rows = []
    for m in masks:
        for s in stds:
            for c in comps:
                for v in variants:
                    full = (s == "c++11" and c == "g++" and v == "shipped") or (s == "c++20" and c == "clang++" and v == "dev")
                    if tier == "thorough" or full or rng.random() < 0.125:
                        rows.append((m, s, c, v))
    cmds = []
    for (m, s, c, v) in rows:
        fl = ["-DFFSM2_ENABLE_ALL"] if m < 0 else combo_flags(m)
        cmds.append([c, "-std=" + s, "-fsyntax-only", "-Wall", "-Wextra"] + vc.variant_flags(v) + fl + [api])
    outs = vc.parallel(cmds)
    failed = []
    for row, cmd, (rc, out) in zip(rows, cmds, outs):
        bad = rc != 0 or "never defined" in out or "is not defined" in out
        if bad:
            failed.append((row, cmd, out))
    by_sig = {}
    for (row, cmd, out) in failed:
        sig = ""
        for l in out.splitlines():
            if "error" in l or "never defined" in l or "is not defined" in l:
                sig = norm_sig(l.split("error:")[-1].split("warning:")[-1].strip())
                break
        by_sig.setdefault(sig, []).append((row, cmd, out))
    for sig, lst in by_sig.items():
        row, cmd, out = lst[0]
        p = os.path.join(od, "compile-%s.log" % vc.sha(sig)[:10])
        open(p, "w").write("%d of %d matrix rows fail like this; first: %s\n$ %s\n%s" % (len(lst), len(rows), str(row), " ".join(cmd), out[-4000:]))
        R.violation(p, "documented-API program does not compile in %d of %d configurations (first: switches=%s std=%s compiler=%s header=%s): %s" % (
            len(lst), len(rows), "ALL" if row[0] < 0 else combo_name(row[0]), row[1], row[2], row[3], sig))
    # (b2) full build + run of the API program for a subset (catches declared-but-undefined API)
    sub = masks if tier == "thorough" else sorted(set([0, 255, -1] + rng.sample(range(256), 13)))
    bdir = os.path.join(od, "bin")
    os.makedirs(bdir, exist_ok=True)
    bcmds, exes = [], []
    for m in sub:
        v = "shipped" if (m & 1) == 0 else "dev"
        fl = ["-DFFSM2_ENABLE_ALL"] if m < 0 else combo_flags(m)
        exe = os.path.join(bdir, "api-%d" % (m & 0xFFF))
        exes.append((m, v, exe))
        bcmds.append(["g++", "-std=c++11", "-O0", "-w"] + vc.variant_flags(v) + fl + [api, "-o", exe])
    bouts = vc.parallel(bcmds)
    nlink = 0
    already = bool(R.violations)
    for (m, v, exe), cmd, (rc, out) in zip(exes, bcmds, bouts):
        if rc != 0:
            if not already:
                p = os.path.join(od, "link-%d.log" % (m & 0xFFF))
                open(p, "w").write("$ %s\n%s" % (" ".join(cmd), out[-4000:]))
                R.violation(p, "documented-API program does not build (switches=%s, %s header): %s" % ("ALL" if m < 0 else combo_name(m), v, out.strip().splitlines()[-1][:300] if out.strip() else ""))
                already = True
            continue
        rc2, out2 = vc.run([exe], timeout=30)
        nlink += 1
        if rc2 != 0:
            p = os.path.join(od, "run-%d.log" % (m & 0xFFF))
            open(p, "w").write(out2[-3000:])
            R.violation(p, "API program crashed / returned %d with switches=%s" % (rc2, combo_name(m)))
    shutil.rmtree(bdir, ignore_errors=True)
    # (c) metamorphic: feature-neutral scenarios behave identically under every switch combination
    neutral_total, neutral_nontrivial, runners = 0, 0, 0
    samples = []
    if not R.violations:
        base_ok, base = vc.zoo_binary("MIN", "shipped", "gcc")
        if not base_ok:
            print("INCONCLUSIVE: FS_MIN harness does not build:", base)
            return 2
        ncases = 3000 if tier == "quick" else 20000
        corpus = os.path.join(od, "neutral.bin")
        vc.run(["env", "RC_PARAMS=seed=%d max_success=%d max_size=30" % (seed * 3 + 11, ncases), base, "emit", "--count", str(ncases), "--out", corpus, "--profile", "neutral"])
        rc, ref = vc.run([base, "digest", "--mode", "2", corpus], timeout=900)
        ref_lines = [l.split() for l in ref.splitlines() if l and l[0].isdigit()]
        neutral_total = len(ref_lines)
        neutral_nontrivial = len(set(l[1] for l in ref_lines if int(l[2], 16) & 2))   # bit 1 = guard cancel
        named = [("ALL", "shipped"), ("ALL", "dev"), ("VERBOSE", "shipped"), ("NOLOG", "dev"), ("MIN", "dev")]
        combos = [(n, v) for n, v in named]
        pick = range(256) if tier == "thorough" else rng.sample(range(1, 256), 8)
        for m in pick:
            feats = [s for i, s in enumerate(SWITCHES) if (m >> i) & 1]
            combos.append((feats, "shipped" if rng.random() < 0.5 else "dev"))
        for fs, variant in combos:
            okb, exe = vc.zoo_binary(fs, variant, "gcc")
            name = fs if isinstance(fs, str) else ("+".join(fs) or "none")
            if not okb:
                p = os.path.join(od, "runner-%s-%s.log" % (vc.sha(name)[:8], variant))
                shutil.copy(exe, p)
                R.violation(p, "zoo harness (documented API only) does not compile with switches=%s (%s header)" % (name, variant))
                break
            rc, out = vc.run([exe, "digest", "--mode", "2", corpus], timeout=900)
            lines = [l.split() for l in out.splitlines() if l and l[0].isdigit()]
            runners += 1
            if len(lines) != len(ref_lines):
                p = os.path.join(od, "runner-%s-%s.log" % (vc.sha(name)[:8], variant))
                open(p, "w").write(out[-4000:])
                R.violation(p, "runner with switches=%s (%s header) crashed or produced %d digests instead of %d" % (name, variant, len(lines), len(ref_lines)))
                break
            for a, b in zip(ref_lines, lines):
                if a[1] != b[1]:
                    k = int(a[0])
                    case_path = vp.extract_case(corpus, k, os.path.join(od, "neutral-%d.case" % k))
                    _, r1 = vc.run([base, "show", case_path])
                    _, r2 = vc.run([exe, "show", case_path])
                    open(case_path + ".txt", "w").write("=== no switches ===\n" + r1 + "\n=== " + name + " (" + variant + ") ===\n" + r2)
                    R.violation(case_path, "feature-neutral scenario #%d behaves differently with switches=%s (%s header) than with no switch: see %s.txt" % (k, name, variant, case_path))
                    break
            if R.violations:
                break
        if ref_lines:
            k = int(ref_lines[len(ref_lines) // 2][0])
            cp = vp.extract_case(corpus, k, os.path.join(od, "sample.case"))
            _, s1 = vc.run([base, "show", cp])
            samples.append("feature-neutral scenario #%d (replayed on every runner):\n%s" % (k, s1[:3000]))
    samples.append("matrix row: switches=%s std=%s compiler=%s header=%s -> %s" % (combo_name(rows[len(rows) // 3][0]) if rows[len(rows) // 3][0] >= 0 else "ALL", rows[len(rows) // 3][1], rows[len(rows) // 3][2], rows[len(rows) // 3][3], "ok"))
    R.coverage["evaluations"] = len(rows) + nlink + neutral_total * max(1, runners)
    R.coverage["distinct_nontrivial"] = sum(1 for r in rows if r[0] < 0 or bin(r[0]).count("1") >= 3) + neutral_nontrivial
    R.coverage["samples"] = samples
    R.coverage["engines"] = {
        "compile_matrix(-fsyntax-only)": {"rows": len(rows), "of_total": 257 * 16, "failed": len(failed)},
        "build_and_run": {"programs": nlink},
        "neutral_scenarios": {"cases": neutral_total, "runners_compared_to_FS_MIN": runners, "cases_with_guard_veto": neutral_nontrivial},
        "header_equality": {"join.py_output_equals_shipped_header": ok},
    }
    return R.finish("matrix rows = (switch subset of the 8 documented switches or FFSM2_ENABLE_ALL) x {c++11,14,17,20} x {g++,clang++} x {shipped,dev header} compiling an API-instantiating program "
                    "(thorough: all 4112 rows; quick: 2 full 257-row slices + a seed-chosen 1/8 of the rest); feature-neutral scenarios = rapidcheck-generated core-API cases replayed on runners built with different "
                    "switch subsets, digests compared with the no-switch runner; non-trivial = matrix rows with >= 3 switches on, plus distinct neutral scenarios containing >= 1 guard veto",
                    extra={"exhaustive": tier == "thorough"},
                    assumptions=["two compilers (g++ 12, clang++ 14) and four language modes; MSVC-only paths are out of reach", "header equality is one deterministic byte comparison, backed by every behavioural check running on both header variants"])


CHECKS[19] = c19
