"""Checks that do not run on the zoo harness alone: C19 (feature matrix), and the container / sizes harnesses
(C10 layer 2, C12 sweep, C13, C14, C20)."""
import glob
import itertools
import json
import os
import random
import shutil
import tempfile
import time

import vfcore as vc
import vfprops as vp

CHECKS = {}
SETUPS = []


def setup():
    ok = True
    for f in SETUPS:
        ok = f() and ok
    return ok


# ===================================================================================================
# C19: feature switches orthogonal; shipped header = amalgamation

SWITCHES = vc.FEATURE_ORDER  # 8 switches


def combo_flags(mask):
    return [vc.FEATURES[s] for i, s in enumerate(SWITCHES) if (mask >> i) & 1]


def combo_name(mask):
    return "+".join(s for i, s in enumerate(SWITCHES) if (mask >> i) & 1) or "none"


def join_equal():
    """run tools/join.py on a scratch copy of development/; result must be byte-identical to the shipped header"""
    tmp = tempfile.mkdtemp(prefix="vf-join-")
    try:
        shutil.copytree(os.path.join(vc.REPO, "development"), os.path.join(tmp, "development"))
        os.makedirs(os.path.join(tmp, "tools"))
        os.makedirs(os.path.join(tmp, "include", "ffsm2"))
        shutil.copy(os.path.join(vc.REPO, "tools", "join.py"), os.path.join(tmp, "tools", "join.py"))
        rc, out = vc.run(["python3", "join.py"], cwd=os.path.join(tmp, "tools"), timeout=120)
        gen = os.path.join(tmp, "include", "ffsm2", "machine.hpp")
        if rc != 0 or not os.path.exists(gen):
            return False, "tools/join.py failed: " + out[-1500:]
        a = open(gen, "rb").read()
        b = open(os.path.join(vc.REPO, "include", "ffsm2", "machine.hpp"), "rb").read()
        if a == b:
            return True, ""
        # first differing line
        la, lb = a.split(b"\n"), b.split(b"\n")
        for i, (x, y) in enumerate(zip(la, lb)):
            if x != y:
                return False, "include/ffsm2/machine.hpp differs from the amalgamation of development/ at line %d:\n  shipped : %s\n  join.py : %s" % (i + 1, y[:200].decode("utf-8", "replace"), x[:200].decode("utf-8", "replace"))
        return False, "include/ffsm2/machine.hpp differs from the amalgamation of development/ in length (%d vs %d lines)" % (len(lb), len(la))
    finally:
        shutil.rmtree(tmp, ignore_errors=True)


# scenarios that use feature set U (profile, U, digest mask: 1 log, 2 plan, 4 history, 8 serial)
USE_SETS = [("neutral", [], 0), ("plans_only", ["PLANS"], 2), ("serial_only", ["SERIAL"], 8), ("history_only", ["HISTORY"], 4)]
RUNNER_MENU = [
    [], ["PLANS"], ["SERIAL"], ["HISTORY"], ["LOG"], ["PLANS", "SERIAL"], ["PLANS", "HISTORY"], ["SERIAL", "HISTORY"],
    vc.FS["ALL"], vc.FS["VERBOSE"], vc.FS["NOLOG"], ["PLANS", "LOG", "NOTYPEINDEX"], ["SERIAL", "STRUCT", "DEBUGTYPE"], ["HISTORY", "VERBOSE"],
    ["PLANS", "SERIAL", "HISTORY", "NOTYPEINDEX"], ["DEBUGTYPE"], ["STRUCT", "NOTYPEINDEX"],
]


def norm_sig(s):
    import re
    s = re.sub(r"\[with.*", "", s)
    s = re.sub(r"'[^']*'", "'T'", s)
    s = re.sub(r"\u2018[^\u2019]*\u2019", "'T'", s)
    s = re.sub(r"<.*", "<...>", s)
    return s.strip()[:160]


def c19(tier, seed):
    R = vp.Result("C19", tier, seed)
    od = vc.fresh_dir(vc.out_dir("C19"))
    rng = random.Random(seed)
    api = os.path.join(vc.HARNESS, "matrix", "api.cpp")
    # (a) shipped header == join.py(development)
    ok, msg = join_equal()
    if not ok:
        p = os.path.join(od, "header-diff.log")
        open(p, "w").write(msg)
        R.violation(p, msg)
    # (b) compile matrix of an API-instantiating program
    masks = list(range(256)) + [-1]   # -1 = FFSM2_ENABLE_ALL
    stds = ["c++11", "c++14", "c++17", "c++20"]
    comps = ["g++", "clang++"]
    variants = ["shipped", "dev"]
    rows = []
    for m in masks:
        for s in stds:
            for c in comps:
                for v in variants:
                    full = (s == "c++11" and c == "g++" and v == "shipped") or (s == "c++20" and c == "clang++" and v == "dev")
                    if tier == "thorough" or full or rng.random() < 0.125:
                        rows.append((m, s, c, v))
    cmds = []
    for (m, s, c, v) in rows:
        fl = ["-DFFSM2_ENABLE_ALL"] if m < 0 else combo_flags(m)
        cmds.append([c, "-std=" + s, "-fsyntax-only", "-Wall", "-Wextra"] + vc.variant_flags(v) + fl + [api])
    outs = vc.parallel(cmds)
    failed = []
    for row, cmd, (rc, out) in zip(rows, cmds, outs):
        bad = rc != 0 or "never defined" in out or "is not defined" in out
        if bad:
            failed.append((row, cmd, out))
    by_sig = {}
    for (row, cmd, out) in failed:
        sig = ""
        for l in out.splitlines():
            if "error" in l or "never defined" in l or "is not defined" in l:
                sig = norm_sig(l.split("error:")[-1].split("warning:")[-1].strip())
                break
        by_sig.setdefault(sig, []).append((row, cmd, out))
    for sig, lst in by_sig.items():
        row, cmd, out = lst[0]
        p = os.path.join(od, "compile-%s.log" % vc.sha(sig)[:10])
        open(p, "w").write("%d of %d matrix rows fail like this; first: %s\n$ %s\n%s" % (len(lst), len(rows), str(row), " ".join(cmd), out[-4000:]))
        R.violation(p, "documented-API program does not compile in %d of %d configurations (first: switches=%s std=%s compiler=%s header=%s): %s" % (
            len(lst), len(rows), "ALL" if row[0] < 0 else combo_name(row[0]), row[1], row[2], row[3], sig))
    # (b2) full build + run of the API program for a subset (catches declared-but-undefined API)
    sub = masks if tier == "thorough" else sorted(set([0, 255, -1] + rng.sample(range(256), 13)))
    bdir = os.path.join(od, "bin")
    os.makedirs(bdir, exist_ok=True)
    bcmds, exes = [], []
    for m in sub:
        v = "shipped" if (m & 1) == 0 else "dev"
        fl = ["-DFFSM2_ENABLE_ALL"] if m < 0 else combo_flags(m)
        exe = os.path.join(bdir, "api-%d" % (m & 0xFFF))
        exes.append((m, v, exe))
        bcmds.append(["g++", "-std=c++11", "-O0", "-w"] + vc.variant_flags(v) + fl + [api, "-o", exe])
    bouts = vc.parallel(bcmds)
    nlink = 0
    already = bool(R.violations)
    for (m, v, exe), cmd, (rc, out) in zip(exes, bcmds, bouts):
        if rc != 0:
            if not already:
                p = os.path.join(od, "link-%d.log" % (m & 0xFFF))
                open(p, "w").write("$ %s\n%s" % (" ".join(cmd), out[-4000:]))
                R.violation(p, "documented-API program does not build (switches=%s, %s header): %s" % ("ALL" if m < 0 else combo_name(m), v, out.strip().splitlines()[-1][:300] if out.strip() else ""))
                already = True
            continue
        rc2, out2 = vc.run([exe], timeout=30)
        nlink += 1
        if rc2 != 0:
            p = os.path.join(od, "run-%d.log" % (m & 0xFFF))
            open(p, "w").write(out2[-3000:])
            R.violation(p, "API program crashed / returned %d with switches=%s" % (rc2, combo_name(m)))
    shutil.rmtree(bdir, ignore_errors=True)
    # (c) metamorphic: a scenario that uses feature set U behaves identically on every runner whose switches include U
    neutral_total, neutral_nontrivial, runners = 0, 0, 0
    samples = []
    if not R.violations:
        ncases = 2500 if tier == "quick" else 15000
        for ui, (profile, U, mask) in enumerate(USE_SETS):
            base_ok, base = vc.zoo_binary(U, "shipped", "gcc")
            if not base_ok:
                print("INCONCLUSIVE: runner %s does not build: %s" % (U, base))
                return 2
            corpus = os.path.join(od, "scen-%s.bin" % profile)
            vc.run(["env", "RC_PARAMS=seed=%d max_success=%d max_size=30" % (seed * 3 + 11 + ui, ncases), base, "emit", "--count", str(ncases), "--out", corpus, "--profile", profile])
            rc, ref = vc.run([base, "digest", "--mask", str(mask), corpus], timeout=1800)
            ref_lines = [l.split() for l in ref.splitlines() if l and l[0].isdigit()]
            if len(ref_lines) < ncases // 2:
                R.inconclusive.append("base runner %s crashed on the %s corpus" % (U, profile))
                continue
            neutral_total += len(ref_lines)
            neutral_nontrivial += len(set(l[1] for l in ref_lines if int(l[2], 16) & 2))   # class bit 1 = guard cancel
            supers = [m for m in RUNNER_MENU if set(U) <= set(m) and m != U]
            if tier == "quick":
                must = [m for m in supers if m in (vc.FS["ALL"], vc.FS["NOLOG"])]
                rest = [m for m in supers if m not in must]
                supers = must + rng.sample(rest, min(2, len(rest)))
            elif not U:
                supers = supers + [[x for i, x in enumerate(SWITCHES) if (m >> i) & 1] for m in range(1, 256)]
            for k, feats in enumerate(supers):
                variant = "dev" if (k + ui) % 2 == 0 else "shipped"
                name = "+".join(feats) or "none"
                okb, exe = vc.zoo_binary(feats, variant, "gcc")
                if not okb:
                    p = os.path.join(od, "runner-%s-%s.log" % (vc.sha(name)[:8], variant))
                    shutil.copy(exe, p)
                    R.violation(p, "zoo harness (documented API only) does not compile with switches=%s (%s header)" % (name, variant))
                    break
                rc, out = vc.run([exe, "digest", "--mask", str(mask), corpus], timeout=1800)
                lines = [l.split() for l in out.splitlines() if l and l[0].isdigit()]
                runners += 1
                if len(lines) != len(ref_lines):
                    p = os.path.join(od, "runner-%s-%s.log" % (vc.sha(name)[:8], variant))
                    open(p, "w").write(out[-4000:])
                    R.violation(p, "runner with switches=%s (%s header) crashed or produced %d digests instead of %d on scenarios using {%s}" % (name, variant, len(lines), len(ref_lines), "+".join(U) or "core API"))
                    break
                for x, y in zip(ref_lines, lines):
                    if x[1] != y[1]:
                        kk = int(x[0])
                        case_path = vp.extract_case(corpus, kk, os.path.join(od, "scen-%s-%d.case" % (profile, kk)))
                        _, r1 = vc.run([base, "show", case_path])
                        _, r2 = vc.run([exe, "show", case_path])
                        open(case_path + ".txt", "w").write("=== switches: " + ("+".join(U) or "none") + " ===\n" + r1 + "\n=== switches: " + name + " (" + variant + " header) ===\n" + r2)
                        R.violation(case_path, "scenario #%d uses only {%s} but behaves differently when the unused switches %s are enabled (%s header): see %s.txt" % (
                            kk, "+".join(U) or "core API", "+".join(f for f in feats if f not in U), variant, case_path))
                        break
                if R.violations:
                    break
            if ref_lines and len(samples) < 2:
                kk = int(ref_lines[len(ref_lines) // 2][0])
                cp = vp.extract_case(corpus, kk, os.path.join(od, "sample-%s.case" % profile))
                _, s1 = vc.run([base, "show", cp])
                samples.append("scenario #%d using {%s} (replayed on every runner whose switches include them):\n%s" % (kk, "+".join(U) or "core API", s1[:2500]))
            if R.violations:
                break
    samples.append("matrix row: switches=%s std=%s compiler=%s header=%s -> %s" % (combo_name(rows[len(rows) // 3][0]) if rows[len(rows) // 3][0] >= 0 else "ALL", rows[len(rows) // 3][1], rows[len(rows) // 3][2], rows[len(rows) // 3][3], "ok"))
    R.coverage["evaluations"] = len(rows) + nlink + (neutral_total // max(1, len(USE_SETS))) * max(1, runners)
    R.coverage["distinct_nontrivial"] = sum(1 for r in rows if r[0] < 0 or bin(r[0]).count("1") >= 3) + neutral_nontrivial
    R.coverage["samples"] = samples
    R.coverage["engines"] = {
        "compile_matrix(-fsyntax-only)": {"rows": len(rows), "of_total": 257 * 16, "failed": len(failed)},
        "build_and_run": {"programs": nlink},
        "unused_feature_scenarios": {"cases": neutral_total, "use_sets": [u[1] for u in USE_SETS], "runner_comparisons": runners, "cases_with_guard_veto": neutral_nontrivial},
        "header_equality": {"join.py_output_equals_shipped_header": ok},
    }
    return R.finish("matrix rows = (switch subset of the 8 documented switches or FFSM2_ENABLE_ALL) x {c++11,14,17,20} x {g++,clang++} x {shipped,dev header} compiling an API-instantiating program "
                    "(thorough: all 4112 rows; quick: 2 full 257-row slices + a seed-chosen 1/8 of the rest); unused-feature scenarios = rapidcheck-generated cases that use only a feature set U (none / plans / serialization / history), replayed on "
                    "runners whose switches are supersets of U, digests compared with the runner built with exactly U; non-trivial = matrix rows with >= 3 switches on, plus distinct neutral scenarios containing >= 1 guard veto",
                    extra={"exhaustive": tier == "thorough"},
                    assumptions=["two compilers (g++ 12, clang++ 14) and four language modes; MSVC-only paths are out of reach", "header equality is one deterministic byte comparison, backed by every behavioural check running on both header variants"])


CHECKS[19] = c19


# ===================================================================================================
# container harness (C13, C20, C10 layer 2)

CONT_SRC = os.path.join(vc.HARNESS, "containers", "containers.cpp")
BOUNDARY_CAPS = [1, 2, 3, 7, 8, 9, 15, 16, 17, 31, 32, 33, 63, 64, 65, 127, 128, 129, 254, 255]
FULL_SHARDS = [(1 + 16 * i, min(255, 16 * (i + 1))) for i in range(16)]
BOUNDARY_SHARDS = [(1, 3), (7, 9), (15, 17), (31, 33), (63, 65), (127, 129), (254, 255)]


def container_binaries(variant, tool, shards):
    """returns (ok, [(lo, hi, exe)], log)"""
    pr = vc.probes(variant)
    pflags = ["-DVF_STATIC_ITER"] if pr.get("static_iter", {}).get("ok") else []
    if tool == "gcc":
        cxx = ["g++", "-std=gnu++17", "-O1", "-g0", "-w"]
        link = ["-lrapidcheck"]
    else:
        cxx = ["clang++", "-std=gnu++17", "-O1", "-g", "-w", "-fsanitize=address,undefined", "-fno-sanitize-recover=undefined"]
        link = ["-lrapidcheck"]
    key = vc.sha(vc.repo_hash(), vc.hash_files([CONT_SRC]), " ".join(cxx + pflags), variant)
    d = os.path.join(vc.build_root(), "cont-%s-%s-%s" % (variant, tool, key[:10]))
    res, cmds, todo = [], [], []
    with vc.Lock(d + ".lock"):
        os.makedirs(d, exist_ok=True)
        for lo, hi in shards:
            exe = os.path.join(d, "cont-%d-%d" % (lo, hi))
            res.append((lo, hi, exe))
            if not os.path.exists(exe):
                todo.append(exe)
                cmds.append(cxx + vc.variant_flags(variant) + pflags + ["-DVF_CLO=%d" % lo, "-DVF_CHI=%d" % hi, CONT_SRC, "-o", exe + ".tmp"] + link)
        outs = vc.parallel(cmds)
        for exe, (rc, out) in zip(todo, outs):
            if rc != 0:
                log = os.path.join(d, "FAILED.log")
                open(log, "w").write(out[-6000:])
                return False, res, log
            os.rename(exe + ".tmp", exe)
    return True, res, ""


def run_containers(R, P, what_list, tier, seed, budget, only_memory=False):
    """runs the container properties `what_list` on all capacities (plain) and the boundary capacities (sanitized)"""
    od = vc.out_dir(P)
    total, nontriv = 0, 0
    caps_seen = set()
    # regression replays (saved shrunk sequences)
    reg = sorted(glob.glob(os.path.join(vc.REGRESS, P, "*.seq")))
    nreg = 0
    for variant in ("shipped", "dev"):
        if not reg:
            break
        ok, bins, log = container_binaries(variant, "gcc", FULL_SHARDS)
        if not ok:
            print("INCONCLUSIVE: container harness does not build (%s): %s" % (variant, log))
            return 2
        for f in reg:
            what = os.path.basename(f).split("-")[0]
            if what not in what_list:
                continue
            cap = open(f, "rb").read(1)[0]
            for lo, hi, exe in bins:
                if lo <= cap <= hi:
                    rc, out = vc.run([exe, "replay", what, f], timeout=60)
                    nreg += 1
                    if rc == 1 or rc == 97:
                        R.violation(f, "regression sequence reproduces (%s header): %s" % (variant, "the sequence does not terminate (watchdog, 10 s)" if rc == 97 else out.strip()[-400:]))
    R.coverage["regression_cases_replayed"] = R.coverage.get("regression_cases_replayed", 0) + nreg
    for variant in ("shipped", "dev"):
        plans = [("gcc", FULL_SHARDS, budget)]
        plans.append(("san", FULL_SHARDS if tier == "thorough" else BOUNDARY_SHARDS, max(2000, budget // 8)))
        for tool, shards, cases in plans:
            ok, bins, log = container_binaries(variant, tool, shards)
            if not ok:
                print("INCONCLUSIVE: container harness does not build (%s/%s): %s" % (variant, tool, log))
                try:
                    print(open(log).read()[-2500:])
                except OSError:
                    pass
                return 2
            env = {"ASAN_OPTIONS": "detect_leaks=0", "UBSAN_OPTIONS": "print_stacktrace=1:halt_on_error=1"}
            cmds, metas = [], []
            per = max(300, cases // (len(bins) * len(what_list)))
            for what in what_list:
                for (lo, hi, exe) in bins:
                    sp = os.path.join(od, "cstats-%s-%s-%s-%d.json" % (variant, tool, what, lo))
                    try:
                        os.remove(sp)
                    except OSError:
                        pass
                    tag = "%s-%s-%d-%d-s%d" % (variant, tool, lo, hi, seed)
                    cmds.append(["env", "RC_PARAMS=seed=%d max_success=%d max_size=%d" % (seed * 977 + lo * 7 + len(what), per, 60 if tier == "quick" else 120), exe, what, "--stats", sp, "--out", od, "--tag", tag])
                    metas.append((what, lo, hi, exe, sp))
            outs = vc.parallel(cmds, env=env)
            for (what, lo, hi, exe, sp), (rc, out) in zip(metas, outs):
                try:
                    st = json.load(open(sp))
                except (OSError, ValueError):
                    st = None
                if st:
                    total += st.get("evaluations", 0)
                    nontriv += st.get("distinct_nontrivial", 0)
                    caps_seen.update(int(k) for k in st.get("caps", {}))
                    for smp in st.get("samples", [])[:1]:
                        if len(R.coverage["samples"]) < 4:
                            R.coverage["samples"].append(smp)
                    if st.get("failed") and st.get("replay"):
                        # confirm 3/3 through the stand-alone replayer
                        good = True
                        for _ in range(3):
                            rc2, o2 = vc.run([exe, "replay", what, st["replay"]], env=env, timeout=60)
                            if rc2 != 1:
                                good = False
                        if only_memory and not any(k in st.get("message", "") for k in ("outside", "misaligned")):
                            R.inconclusive.append("container model mismatch (owned by C10/C13/C20, not a memory-safety report): " + st.get("message", "")[:160])
                        elif good:
                            R.violation(st["replay"], "%s  [%s, %s header, %s build, capacities %d..%d; shrunk by rapidcheck, reproduced 3/3; replay with: %s replay %s %s]" % (st.get("message", ""), what, variant, tool, lo, hi, exe, what, st["replay"]))
                        else:
                            R.inconclusive.append("container failure did not reproduce: " + st["replay"])
                elif rc == 97:
                    # per-sequence watchdog of the harness: the operation sequence did not return within 20 s (normal: microseconds)
                    hp = os.path.join(od, "%s-%s-%s-%d-%d-s%d-hang.seq" % (what, variant, tool, lo, hi, seed))
                    hangs = 0
                    if os.path.exists(hp):
                        for _ in range(3):
                            rc2, o2 = vc.run([exe, "replay", what, hp], env=env, timeout=60)
                            if rc2 == 97:
                                hangs += 1
                    if hangs == 3:
                        R.violation(hp, "container operation sequence does not terminate: the harness watchdog fired after 20 s and the saved sequence hangs again 3/3 in the stand-alone replayer (10 s each; a sequence normally takes microseconds)  [%s, %s header, %s build, capacities %d..%d; replay with: %s replay %s %s]" % (what, variant, tool, lo, hi, exe, what, hp))
                    else:
                        R.inconclusive.append("container watchdog fired but the saved sequence did not hang again (%d/3): %s" % (hangs, hp))
                elif rc != 0:
                    p = os.path.join(od, "crash-%s-%s-%s-%d.log" % (variant, tool, what, lo))
                    open(p, "w").write(out[-6000:])
                    R.violation(p, "container harness %s crashed or reported a sanitizer error (%s header, %s build, capacities %d..%d): %s" % (what, variant, tool, lo, hi, vp.first_report_line(out)))
    R.coverage["evaluations"] += total
    R.coverage["distinct_nontrivial"] += nontriv
    R.coverage["engines"]["containers:" + "+".join(what_list)] = {"evaluations": total, "distinct_nontrivial": nontriv, "capacities_exercised": len(caps_seen), "all_capacities_1_to_255": len(caps_seen) == 255}
    return 0


def bitwidth_check(R, tier, seed):
    od = vc.out_dir("C13")
    src = os.path.join(vc.HARNESS, "containers", "bitwidth.cpp")
    rng = random.Random(seed)
    total = 0
    for variant in ("shipped", "dev"):
        d = os.path.join(vc.build_root(), "bitwidth-%s-%s" % (variant, vc.sha(vc.repo_hash(), vc.hash_files([src]))[:10]))
        exe = os.path.join(d, "bitwidth")
        with vc.Lock(d + ".lock"):
            if not os.path.exists(exe):
                os.makedirs(d, exist_ok=True)
                rc, out = vc.run(["g++", "-std=gnu++17", "-O2", "-w"] + vc.variant_flags(variant) + [src, "-o", exe])
                if rc != 0:
                    print("INCONCLUSIVE: bitwidth harness does not build:", out[-2000:])
                    return 2
        if tier == "thorough":
            step = (1 << 32) // vc.NCPU
            cmds = [[exe, "range", str(i * step), str((1 << 32) if i == vc.NCPU - 1 else (i + 1) * step)] for i in range(vc.NCPU)]
        else:
            vals = [0]
            for k in range(32):
                vals += [max(0, (1 << k) - 1), 1 << k, (1 << k) + 1]
            vals += [(1 << 32) - 1, (1 << 32) - 2]
            vals += [rng.randrange(0, 1 << 32) for _ in range(200000)]
            lst = os.path.join(od, "bitwidth-%s.txt" % variant)
            open(lst, "w").write("\n".join(str(v) for v in vals))
            cmds = [[exe, "list", lst], [exe, "range", "0", str(1 << 22)]]
        outs = vc.parallel(cmds)
        for c, (rc, out) in zip(cmds, outs):
            for l in out.splitlines():
                if l.startswith("checked"):
                    total += int(l.split()[1])
            if rc != 0:
                p = os.path.join(od, "bitwidth-%s.log" % variant)
                open(p, "w").write(" ".join(c) + "\n" + out)
                R.violation(p, "bitWidth(): " + out.strip()[:300] + " (%s header)" % variant)
    R.coverage["evaluations"] += total
    R.coverage["engines"]["bitWidth"] = {"arguments_checked": total, "exhaustive_over_2^32": tier == "thorough"}
    return 0


def c13(tier, seed):
    R = vp.Result("C13", tier, seed)
    vc.fresh_dir(vc.out_dir("C13"))
    rc = run_containers(R, "C13", ["stream"], tier, seed, 160000 if tier == "quick" else 3000000)
    if rc == 2:
        return 2
    rc = bitwidth_check(R, tier, seed)
    if rc == 2:
        return 2
    return R.finish("bit stream cases = (capacity 1..255 enumerated round-robin, start cursor, list of (width 1..32, value fitting the width; all-ones / single-bit / random)) generated by rapidcheck, checked after every write against a "
                    "one-bool-per-bit model and read back; distinct = distinct (capacity, cursor, fields); non-trivial = a field that starts at a non-zero bit offset and straddles >= 2 byte boundaries. bitWidth: listed boundary values, 2^22 prefix and random 32-bit arguments (quick) / all 2^32 arguments (thorough)",
                    extra={"exhaustive": False},
                    assumptions=["stream contract: cursor + width <= capacity and the value fits its width (asserted preconditions)", "all capacities 1..255 and all widths 1..32 are instantiated through dispatch tables; plain build covers all capacities, the sanitized build the boundary capacities (quick) or all (thorough)"])


def c20(tier, seed):
    R = vp.Result("C20", tier, seed)
    vc.fresh_dir(vc.out_dir("C20"))
    for variant in ("shipped", "dev"):
        pr = vc.probes(variant)
        if "static_iter" in pr and not pr["static_iter"]["ok"]:
            R.violation(pr["static_iter"]["log"], "StaticArrayT cannot be iterated: a program using only begin()/end() (range-based for) does not compile or visits the wrong elements (%s header); see log" % variant)
    rc = run_containers(R, "C20", ["bitarray", "static", "dynamic"], tier, seed, 300000 if tier == "quick" else 5000000)
    if rc == 2:
        return 2
    return R.finish("cases = (capacity 1..255 enumerated round-robin, operation sequence) generated by rapidcheck: BitArrayT vs a vector<bool> model (set/clear/get/set-all/clear-all/empty/and-assign, full comparison after every op, "
                    "then every index cleared one by one), StaticArrayT vs std::vector (store/load/fill/clear/iterate/empty, element types uint32_t and Short), DynamicArrayT vs std::vector (emplace, +=, += array, [], clear, iteration); "
                    "non-trivial = bit array: capacity not a multiple of 8 with set() followed by per-index clears; static: a fill/clear among >= 3 ops; dynamic: the array reached its capacity",
                    assumptions=["indices < capacity / < count, emplace only below capacity (asserted preconditions)", "plain build: all capacities; sanitized build: boundary capacities (quick) or all (thorough)"])


CHECKS[13] = c13
CHECKS[20] = c20


def c18_extra(R, tier, seed):
    # the containers under the sanitizers, every capacity boundary: only memory-safety reports count here
    rc = run_containers(R, "C18", ["bitarray", "static", "dynamic", "tasklist", "stream"], tier, seed, 100000 if tier == "quick" else 1500000, only_memory=True)
    if rc == 2:
        return 2
    # smallest / largest / byte-boundary machine sizes under the sanitizers (serial buffer as a heap object of its own)
    ns = [1, 2, 63, 64, 127, 128, 129] + ([254, 255] if tier == "thorough" else [])
    plan = [(n, n % 2, "shipped" if i % 2 == 0 else "dev") for i, n in enumerate(ns)]
    ok, bins, log, out = sizes_binaries(plan, san=True)
    if not ok:
        print("INCONCLUSIVE: sanitized sizes harness does not build:", log)
        return 2
    od = vc.out_dir("C18")
    env = {"ASAN_OPTIONS": "detect_leaks=0", "UBSAN_OPTIONS": "print_stacktrace=1:halt_on_error=1"}
    cmds, metas = [], []
    for p in plan:
        wp = os.path.join(od, "walk-%d-%d-%s.txt" % p)
        gen_walk(p[0], seed, wp)
        cmds.append([bins[p], "walk", wp]); metas.append((p, "walk", wp))
        cmds.append([bins[p], "pairs"]); metas.append((p, "pairs", ""))
        cmds.append([bins[p], "plans", str(seed + 11)]); metas.append((p, "plans", ""))
    outs = vc.parallel(cmds, env=env)
    n_ok = 0
    for (p, what, wp), (rc2, o2) in zip(metas, outs):
        if "runtime error:" in o2 or "AddressSanitizer" in o2:
            lp = os.path.join(od, "sizes-san-%d-%d-%s-%s.log" % (p[0], p[1], p[2], what))
            open(lp, "w").write(o2[-6000:])
            R.violation(lp, "sanitizer report in the sizes harness (N=%d mode=%d[+1 head,+2 automatic], %s header, %s): %s" % (p[0], p[1], p[2], what, vp.first_report_line(o2)))
        elif rc2 == 0:
            n_ok += 1
    R.coverage["engines"]["sizes_under_sanitizers"] = {"state_counts": ns, "runs_clean": n_ok}
    R.coverage["evaluations"] += n_ok
    # plan handles on the largest machines (default task capacity = state count, up to 255 = the value of the invalid index): iteration through
    # Plan, const Plan and CPlan must end (plain builds shared with C12 / C14; only non-termination counts for C18 here)
    big = [p for p in sizes_plan(tier, seed) if p[0] >= 250 or p[0] in (127, 128, 129)]
    ok, bins, log, out = sizes_binaries(big)
    if not ok:
        print("INCONCLUSIVE: sizes harness does not build:", log)
        return 2
    outs = vc.parallel([[bins[p], "plans", str(seed + 12)] for p in big], timeout=900)
    for p, (rc2, o2) in zip(big, outs):
        if rc2 != 0 and ("does not end" in o2 or "then stop" in o2 or rc2 < 0):
            lp = os.path.join(od, "plans-%d-%d-%s.log" % p)
            open(lp, "w").write(o2[-4000:])
            R.violation(lp, "plan iteration does not terminate / runs past the task array (N=%d mode=%d[+1 head,+2 automatic], %s header): %s  [replay: %s plans %d]" % (p[0], p[1], p[2], o2.strip()[:300], bins[p], seed + 12))
    R.coverage["engines"]["plan_handles_on_big_machines"] = {"state_counts": sorted(set(p[0] for p in big))}
    return 0


def c14_zoo(R, tier, seed):
    """zoo part of C14: access<T>() is the object whose callbacks run, for every callback kind incl. plan outcomes and injections"""
    n = 14
    for variant in ("shipped", "dev"):
        ok, exe = vc.zoo_binary("ALL", variant, "gcc")
        if not ok:
            print("INCONCLUSIVE: zoo harness does not build:", exe)
            return 2
        for i, prof in enumerate(["plans", "general"]):
            stats, failures, crashes = vc.run_pbt(exe, n, prof, 100000 if tier == "quick" else 1500000, 30, seed * 5 + i, vc.NCPU // 2, None, tag="%s-" % variant)
            R.add_stats("rapidcheck:zoo:%s:%s" % (variant, prof), stats)
            for path, msg in failures:
                okc, out = vc.confirm(exe, n, path)
                if okc:
                    R.violation(path, "%s  [zoo harness, %s header, profile %s; shrunk by rapidcheck, reproduced 3/3]" % (msg, variant, prof))
    return 0


def c10_extra(R, tier, seed):
    return run_containers(R, "C10", ["tasklist"], tier, seed, 120000 if tier == "quick" else 3000000)


# ===================================================================================================
# configuration-order harness (C04 limit, C01 activation mode, C10 capacity): all 120 orders of the five configuration aliases

CFGPERM_SRC = os.path.join(vc.HARNESS, "cfgperm", "cfgperm.cpp")


def cfgperm_plan(tier, seed):
    if tier == "thorough":
        return [(L, v) for L in (1, 2, 3, 5, 7) for v in ("shipped", "dev")]
    return [(1, "shipped"), (3, "dev"), (2 if seed % 2 else 5, "dev" if seed % 2 else "shipped")]


def cfgperm_binaries(plan):
    key = vc.sha(vc.repo_hash(), vc.hash_files([CFGPERM_SRC]))
    d = os.path.join(vc.build_root(), "cfgperm-" + key[:10])
    res, cmds, todo = {}, [], []
    with vc.Lock(d + ".lock"):
        os.makedirs(d, exist_ok=True)
        for (L, variant) in plan:
            exe = os.path.join(d, "cp-%d-%s" % (L, variant))
            res[(L, variant)] = exe
            if not os.path.exists(exe):
                todo.append(exe)
                cmds.append(["g++", "-std=gnu++17", "-O0", "-w", "-DFFSM2_ENABLE_ALL"] + vc.variant_flags(variant) + ["-DVF_L=%d" % L, CFGPERM_SRC, "-o", exe + ".tmp"])
        outs = vc.parallel(cmds)
        for exe, cmd, (rc, out) in zip(todo, cmds, outs):
            if rc != 0:
                log = exe + ".FAILED.log"
                open(log, "w").write(" ".join(cmd) + "\n" + out[-6000:])
                return False, res, log, out
            os.rename(exe + ".tmp", exe)
    return True, res, "", ""


def cfgperm_check(R, n, tier, seed):
    """the same settings spelled in any of the 120 alias orders describe the same machine (behavioural check of the aspect property n speaks about)"""
    P = "C%02d" % n
    od = vc.out_dir(P)
    plan = cfgperm_plan(tier, seed)
    ok, bins, log, out = cfgperm_binaries(plan)
    if not ok:
        print("INCONCLUSIVE: configuration-order harness does not build:", log)
        print(out[-2500:])
        return 2
    outs = vc.parallel([[bins[p], "--prop", str(n)] for p in plan])
    orders = calls = reached = 0
    for p, (rc, out) in zip(plan, outs):
        if rc != 0:
            lp = os.path.join(od, "cfgperm-%d-%s.log" % p)
            open(lp, "w").write(out)
            first = next((l for l in out.splitlines() if l.startswith("CFGPERM-VIOLATION")), out.strip()[:300])
            R.violation(lp, "configuration spelled in a different alias order behaves differently (L=%d, %s header): %s  [replay: %s --prop %d]" % (p[0], p[1], first[:500], bins[p], n))
        for l in out.splitlines():
            if l.startswith("cfgperm L="):
                kv = dict(x.split("=") for x in l.split()[1:])
                orders += int(kv["orders"]); calls += int(kv["calls"]); reached += int(kv["limit_reached"])
    R.coverage["evaluations"] += calls
    R.coverage["engines"]["config_alias_order_sweep"] = {"machines": orders, "limits": sorted(set(p[0] for p in plan)), "driven_calls": calls, "calls_reaching_exactly_L_rounds": reached, "exhaustive_over_the_120_orders": True}
    return 0


# ===================================================================================================
# sizes harness (C14, C12 sweep)

SIZES_SRC = os.path.join(vc.HARNESS, "sizes", "sizes.cpp")
BOUNDARY_N = [1, 2, 3, 4, 5, 7, 8, 9, 15, 16, 17, 31, 32, 33, 63, 64, 65, 127, 128, 129, 254, 255]


def sizes_plan(tier, seed):
    """list of (N, mode, variant); mode bit 0 = root head, bit 1 = automatic activation (else manual)"""
    rng = random.Random(seed * 31 + 5)
    plan = []
    if tier == "thorough":
        for n in range(1, 256):
            plan.append((n, n % 2, "shipped" if (n // 2) % 2 == 0 else "dev"))
            if n in BOUNDARY_N:
                plan.append((n, 1 - n % 2, "dev" if (n // 2) % 2 == 0 else "shipped"))
            if n in BOUNDARY_N or n >= 120 or n % 4 == 0:
                plan.append((n, 2 + (n // 3) % 2, "dev" if n % 2 == 0 else "shipped"))
    else:
        for i, n in enumerate(BOUNDARY_N):
            plan.append((n, n % 2, "shipped" if i % 2 == 0 else "dev"))
        plan += [(1, 0, "dev"), (2, 1, "shipped"), (255, 0, "shipped"), (3, 0, "dev")]
        # automatic activation (no inactive form; a different save path)
        plan += [(1, 3, "shipped"), (2, 2, "dev"), (5, 3, "dev"), (64, 2, "shipped"), (65, 3, "dev"), (128, 3, "shipped"), (129, 2, "shipped"), (255, 3, "dev")]
        for n in rng.sample([x for x in range(6, 120) if x not in BOUNDARY_N], 6):
            plan.append((n, rng.randrange(4), rng.choice(["shipped", "dev"])))
        plan.append((rng.randrange(130, 254), 2 + rng.randrange(2), rng.choice(["shipped", "dev"])))
    return plan


def sizes_binaries(plan, san=False):
    key = vc.sha(vc.repo_hash(), vc.hash_files([SIZES_SRC]), "san" if san else "plain")
    d = os.path.join(vc.build_root(), ("sizes-san-" if san else "sizes-") + key[:10])
    res, cmds, todo = {}, [], []
    with vc.Lock(d + ".lock"):
        os.makedirs(d, exist_ok=True)
        for (n, head, variant) in plan:
            exe = os.path.join(d, "sz-%d-%d-%s" % (n, head, variant))
            res[(n, head, variant)] = exe
            if not os.path.exists(exe) and exe not in todo:
                todo.append(exe)
                cxx = ["clang++", "-std=gnu++17", "-O0", "-w"] if n > 64 else ["g++", "-std=gnu++17", "-O0", "-w"]
                if san:
                    cxx = ["clang++", "-std=gnu++17", "-O0", "-g", "-w", "-fsanitize=address,undefined", "-fno-sanitize-recover=undefined"]
                cmds.append(cxx + vc.variant_flags(variant) + ["-DVF_N=%d" % n, "-DVF_HEAD=%d" % (head & 1), "-DVF_AUTO=%d" % (head >> 1), SIZES_SRC, "-o", exe + ".tmp"])
        # big machines need ~1.5 GB each while compiling: limit the parallelism for them
        outs = vc.parallel(cmds, jobs=min(vc.NCPU, 12))
        for exe, cmd, (rc, out) in zip(todo, cmds, outs):
            if rc != 0:
                log = exe + ".FAILED.log"
                open(log, "w").write(" ".join(cmd) + "\n" + out[-6000:])
                return False, res, log, out
            os.rename(exe + ".tmp", exe)
    return True, res, "", ""


def gen_walk(n, seed, path):
    rng = random.Random(seed * 100003 + n)
    order = list(range(n))
    rng.shuffle(order)
    lines = []
    for k in order:
        lines.append("%s %d" % (rng.choice("iicp"), k))
        for _ in range(rng.randrange(0, 3)):
            lines.append("%s %d" % (rng.choice("urqiicx"), rng.randrange(n)))
    # make sure the boundary indices are hit directly from each other
    for k in (0, n - 1, n // 2, 0, n - 1):
        lines.append("i %d" % k)
    # ... and through the replay entry point (no guards), which has its own validity test on the id
    for k in (n - 1, 0, n // 2, n - 1):
        lines.append("p %d" % k)
    open(path, "w").write("\n".join(lines) + "\n")
    return len(lines)


def c14(tier, seed):
    R = vp.Result("C14", tier, seed)
    od = vc.fresh_dir(vc.out_dir("C14"))
    plan = sizes_plan(tier, seed)
    ok, bins, log, out = sizes_binaries(plan)
    if not ok:
        if "static assertion failed" in out or "static_assert" in out:
            p = os.path.join(od, "static-assert.log")
            shutil.copy(log, p)
            R.violation(p, "compile-time check failed: stateId<T>() is not the declaration position / head id not invalid: " + vp.first_report_line(out))
            return R.finish("(compile-time)", extra={})
        print("INCONCLUSIVE: sizes harness does not build:", log)
        print(out[-2500:])
        return 2
    cmds, metas, steps_total = [], [], 0
    for (n, head, variant) in plan:
        wp = os.path.join(od, "walk-%d-%d-%s.txt" % (n, head, variant))
        steps_total += gen_walk(n, seed, wp)
        cmds.append([bins[(n, head, variant)], "walk", wp])
        metas.append((n, head, variant, wp))
    outs = vc.parallel(cmds)
    visited = 0
    for (n, head, variant, wp), (rc, out) in zip(metas, outs):
        if rc != 0:
            R.violation(wp, "N=%d mode=%d[+1 head,+2 automatic] (%s header): %s  [replay: %s walk %s]" % (n, head, variant, out.strip()[:400], bins[(n, head, variant)], wp))
        else:
            visited += n
    if not R.violations and c14_zoo(R, tier, seed) == 2:
        return 2
    R.coverage["evaluations"] += steps_total
    R.coverage["distinct_nontrivial"] += visited
    R.coverage["samples"] = R.coverage["samples"][:2] + ["N=%d mode=%d[+1 head,+2 automatic] header=%s walk (first 12 ops): %s" % (m[0], m[1], m[2], " ; ".join(open(m[3]).read().splitlines()[:12])) for m in metas[:3]]
    R.coverage["engines"]["sizes_walks"] = {"machines": len(plan), "state_counts": sorted(set(p[0] for p in plan)), "walk_steps": steps_total, "(N,k)_pairs_visited": visited}
    return R.finish("for each machine size N (thorough: every N in 1..255; quick: the boundary set %s plus seed-chosen extras), with and without a root head, both header variants alternating: compile-time stateId<St<I>>() == I for all I; "
                    "a seed-generated walk visits every k < N (random order, interleaved update/react/query/re-entry/exit+enter) and after each step checks that only St<k> (and the state just left) ran callbacks, activeStateId()==k, "
                    "isActive(i) for all i, and access<St<k>>() is the object whose callbacks ran; non-trivial = distinct (N, k) pairs visited" % BOUNDARY_N,
                    extra={"exhaustive": tier == "thorough"},
                    assumptions=["exhaustive in (N, k) for the sizes built; the walk order is generated from VERIF_SEED by the driver and saved as the replay file", "manual activation, SERIALIZATION+PLANS enabled in the sizes harness"])


CHECKS[14] = c14


def c12_extra(R, tier, seed):
    od = vc.out_dir("C12")
    plan = sizes_plan(tier, seed)
    ok, bins, log, out = sizes_binaries(plan)
    if not ok:
        print("INCONCLUSIVE: sizes harness does not build:", log)
        print(out[-2500:])
        return 2
    cmds = [[bins[p], "pairs"] for p in plan]
    outs = vc.parallel(cmds)
    pairs = 0
    for p, (rc, out) in zip(plan, outs):
        if rc != 0:
            lp = os.path.join(od, "pairs-%d-%d-%s.log" % p)
            open(lp, "w").write(out)
            R.violation(lp, "save/load sweep N=%d mode=%d[+1 head,+2 automatic] (%s header): %s  [replay: %s pairs]" % (p[0], p[1], p[2], out.strip()[:400], bins[p]))
        else:
            for l in out.splitlines():
                if l.startswith("pairs ok"):
                    pairs += int(l.split("pairs=")[1].split()[0])
    R.coverage["evaluations"] += pairs
    R.coverage["distinct_nontrivial"] += pairs
    R.coverage["engines"]["sizes_save_load_sweep"] = {"machines": len(plan), "state_counts": sorted(set(p[0] for p in plan)), "(saver,loader)_pairs": pairs, "exhaustive_in_(k,j)_per_N": True}
    return 0


def c08_extra(R, tier, seed):
    """C08 on machines of every size (the zoo stops at 64 states): scripted scenarios per origin id, destinations drawn from the seed"""
    od = vc.out_dir("C08")
    plan = sizes_plan(tier, seed)
    ok, bins, log, out = sizes_binaries(plan)
    if not ok:
        print("INCONCLUSIVE: sizes harness does not build:", log)
        print(out[-2500:])
        return 2
    outs = vc.parallel([[bins[p], "plans", str(seed * 97 + 3)] for p in plan])
    scen = 0
    for p, (rc, out) in zip(plan, outs):
        if rc != 0:
            lp = os.path.join(od, "plans-%d-%d-%s.log" % p)
            open(lp, "w").write(out)
            R.violation(lp, "plan scenarios N=%d mode=%d[+1 head,+2 automatic] (%s header): %s  [replay: %s plans %d]" % (p[0], p[1], p[2], out.strip()[:400], bins[p], seed * 97 + 3))
        else:
            for l in out.splitlines():
                if l.startswith("plans ok"):
                    scen += int(l.split("scenarios=")[1].split()[0])
    R.coverage["evaluations"] += scen
    R.coverage["engines"]["sizes_plan_scenarios"] = {"machines": len(plan), "state_counts": sorted(set(p[0] for p in plan)), "scenarios": scen,
                                                      "what": "per origin id (all ids of every machine): a report is consumed by the task it fires even if the fired transition is vetoed; reports of other states survive"}
    return 0


def setup_extra():
    ok = True
    for variant in ("shipped", "dev"):
        r, _, log = container_binaries(variant, "gcc", FULL_SHARDS)
        ok = ok and r
        r, _, log = container_binaries(variant, "san", BOUNDARY_SHARDS)
        ok = ok and r
    r, _, _, _ = sizes_binaries(sizes_plan("quick", vc.seed()))
    r2, _, _, _ = cfgperm_binaries(cfgperm_plan("quick", vc.seed()))
    ok = ok and r2
    for feats in RUNNER_MENU:
        for variant in ("shipped", "dev"):
            vc.zoo_binary(feats, variant, "gcc")
    return ok and r


SETUPS.append(setup_extra)
