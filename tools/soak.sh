#!/bin/bash
# Anti-flakiness soak: every quick check with several VERIF_SEED values on an unchanged tree. Prints one line per run.
# usage: tools/soak.sh "2 3 4" [tier]
cd "$(dirname "$0")/.."
seeds=${1:-"2 3 4"}
tier=${2:-quick}
./check --setup > /dev/null 2>&1
for s in $seeds; do
  for p in C01 C02 C03 C04 C05 C06 C07 C08 C09 C10 C11 C12 C13 C14 C15 C16 C17 C18 C19 C20; do
    t0=$(date +%s)
    out=$(VERIF_SEED=$s ./check $p --tier $tier 2>&1)
    rc=$?
    echo "seed=$s $p rc=$rc $(( $(date +%s) - t0 ))s $(echo "$out" | grep -E 'VIOLATION|INCONCLUSIVE|held on' | head -2 | tr '\n' ' ' | cut -c1-260)"
  done
done
