#!/usr/bin/env python3
"""Regenerates /verif/MANIFEST.json from the table below."""
import json, os
V = os.path.dirname(os.path.dirname(os.path.abspath(__file__)))

ZOO_NOTE = ("Trusted base: the scripted-world harness (harness/zoo.hpp), the trace analysis and the predicate for this property (written from the property statement), "
            "rapidcheck, libFuzzer and the sanitizer runtimes. Assumes the generators' input contract of DESIGN.md section 3 (asserted preconditions respected; a veto of a redirected request during activation excluded and counted). "
            "Configuration space is sampled by a fixed zoo of 18 machine types; both header variants (shipped single header and development sources) are exercised.")

P = {
 "C01": ("enter/exit automaton + observer agreement over generated API histories (rapidcheck stateful cases; libFuzzer in thorough)", "4.C01",
         "Generated histories of all public operations with arbitrary scripted callback behaviour; every lifecycle callback drives a pairing automaton and every observation point (each callback, each API boundary) must agree with it."),
 "C02": ("guard-round model: last passing round = outcome; no effect at request time (rapidcheck + libFuzzer)", "4.C02", "Request-heavy histories; independent tagging of every request; outcome, lifecycle callbacks and first evaluated request compared with the tagged model."),
 "C03": ("guard decision chains vs 'last passing round' justification of every enter (rapidcheck + libFuzzer)", "4.C03", "Generated pass/cancel/redirect/cancel+redirect chains; every enter()/reenter() must be justified by the last passing round; replay/load windows guard-free."),
 "C04": ("ping-pong guards, L in {1,2,3,4,5,6,7,12,255}; round count, outcome and left-over request (rapidcheck + libFuzzer) + all 120 orders of the configuration aliases", "4.C04", "Redirect-heavy guards (also 'redirect k times, then veto') on machines with nine different substitution limits; rounds per call <= L, the outcome is chosen among the requests that passed, callback budget turns hangs into violations, left-over requests re-guarded; a three-state machine is built for every order of the five configuration aliases."),
 "C05": ("fixed delivery sequence, event address identity, query purity over generated cycles (rapidcheck + libFuzzer)", "4.C05", "Phase callbacks that request / report at every position; the delivery blocks of each update/react/query must equal the stated sequence."),
 "C06": ("control view == machine view at every callback, all ids, 4 context kinds (rapidcheck + libFuzzer) + API probe", "4.C06", "At each of millions of callbacks stateId, context identity, isActive(i) for every i, request, pending/current transition and plan are compared with the machine's own answers and the tagged request model."),
 "C07": ("tagged payload bytes: null iff none, memcmp-equal, aligned; 11 payload types up to 320 bytes / 64-byte alignment, payloads passed by reference out of the library's own transitions (rapidcheck + sanitizer replay + libFuzzer); one open known finding (F14)", "4.C07", "Payload bytes are a function of a generated seed; wherever the library shows a transition the bytes, presence and alignment are checked against the tagged request."),
 "C08": ("plan firing rules as predicates over (P_pre, F, P_post) incl. sufficiency, also against the edit-history model of the plan; strict report tracking (rapidcheck + libFuzzer) + scripted scenarios per origin id on machines of up to 255 states", "4.C08", "Generated plans x reports x vetoes x edits; fired set recovered from observed plan snapshots; necessity and sufficiency rules of the statement checked per cycle."),
 "C09": ("outcome => warrant, never without a task, sufficiency for failure; every memory fill (rapidcheck x 3 fills + UBSan replay + libFuzzer)", "4.C09", "Same generator as C08 plus the fill byte of the storage; outcome callbacks must be warranted by tracked reports and never depend on the fill pattern."),
 "C10": ("std::vector model of the plan through the Plan API + slot-map model of TaskListT for every capacity 1..255 (rapidcheck) + link probe", "4.C10", "Model-based: every append/remove/clear/firing/outcome is mirrored in a vector and compared at every observation; TaskListT exercised directly for all capacities."),
 "C11": ("history == survivor; hostile replica driven only by replay stays in lock-step (rapidcheck + libFuzzer)", "4.C11", "Authority histories with multi-round vetoes; a second instance with cancelling/redirecting guards is fed previousTransition().destination after every step."),
 "C12": ("save/load round trip over generated (saver, loader) histories + exhaustive (k, j) sweep for state counts up to 255", "4.C12", "Generated pairs on the zoo plus an exhaustive sweep over all (saver index, loader index or inactive) for the built sizes; canaries, canonicity, minimal callbacks."),
 "C13": ("bit-vector reference model for generated field sequences, all capacities 1..255 x widths 1..32; bitWidth over boundary+random (quick) / all 2^32 (thorough); a generated sequence that does not return (per-sequence watchdog, confirmed 3x by replay) is a failed round-trip", "4.C13", "Round-trip and differential against a one-bool-per-bit model after every write; exhaustive in capacity, generated in cursor/widths/values."),
 "C14": ("sizes harness: compile-time ids + seed-generated walks (immediateChangeTo / changeTo+update / replayTransition) over every k for N in boundary set (quick) / every N 1..255 (thorough); zoo pass: every callback ran on access<T>()", "4.C14", "Exhaustive in (N, k) for the sizes built; after every step only the requested state's callbacks ran and access<T>() is that object."),
 "C15": ("exactly-once + stated order per delivery for k = 0..3 injections (rapidcheck + libFuzzer)", "4.C15", "Every delivery block in every generated history is checked for exactly-once and for the stated forward / reverse order."),
 "C16": ("record<->delivery/action bijection within logging builds; digest equality across logger attach states (rapidcheck, FS_ALL and FS_VERBOSE)", "4.C16", "Logger events are interleaved into the trace; each action must be followed by its record, each record by its delivery; the same case is re-run with the logger never / always attached and digests compared."),
 "C17": ("digest equality across 3 memory fills; fork-and-compare copy vs original (rapidcheck + sanitizer replay + libFuzzer)", "4.C17", "Metamorphic: fill pattern must not matter; a copy taken at a generated point must answer the remaining history exactly like the original and leave it untouched."),
 "C18": ("ASan+UBSan over generated cases (zoo, containers, sizes) and libFuzzer campaigns, allocation counter armed during FFSM2 calls, alignment and canary oracles, byte- and word-pattern fill differentials, valgrind memcheck on uninitialised heap placement, g++ vs clang build differential of trace digests", "4.C18", "All generated cases also run in the sanitized build; any report, allocation, misalignment, fill-dependence, memcheck error or compiler-dependent behaviour is a violation."),
 "C19": ("enumerated switch matrix (compile / build+run) + feature-neutral generated scenarios compared across runners + join.py byte comparison", "4.C19", "2^8 switches x 4 standards x 2 compilers x 2 headers enumerated (thorough: all 4112 rows); generated core-API scenarios must produce identical digests on runners built with different switch subsets."),
 "C20": ("std::vector<bool>/std::vector models for generated op sequences, every capacity 1..255 (rapidcheck, plain + sanitized) + iteration probe", "4.C20", "Model-based comparison after every operation; capacities enumerated, sequences generated and shrunk."),
}
LEVEL_TEXT = "Exploration by generated-input search against an explicit oracle: %s This is the right level because the property quantifies over unbounded histories/callback behaviours; absence is not established, coverage is measured (evaluations, class histogram, distinct non-trivial cases) and every failure is shrunk to a replay file."

checks = []
for pid in sorted(P):
    tech, ref, text = P[pid]
    note = ZOO_NOTE if pid not in ("C13", "C14", "C19", "C20") else "Trusted base: the dedicated harness for this property (harness/containers, harness/sizes or harness/matrix), its reference models, rapidcheck, the two compilers and the sanitizer runtimes. Finite dimensions (capacities, state counts, switch subsets) are enumerated; the rest is generated."
    checks.append({
        "property_id": pid,
        "quick_cmd": "./check %s --tier quick" % pid,
        "thorough_cmd": "./check %s --tier thorough" % pid,
        "evidence_file": "evidence/%s.json" % pid,
        "replay_cmd_template": "./check --replay %s {path}" % pid,
        "engine": "rapidcheck+libFuzzer" if pid not in ("C14", "C19") else "enumeration+generated walks/scenarios",
        "level_claimed": {"category": "exploration", "text": LEVEL_TEXT % text, "design_ref": "DESIGN.md section " + ref},
        "level_note": note,
        "technique": "property-based testing / fuzzing: " + tech,
    })

m = {
 "version": 1,
 "setup_cmd": "./check --setup",
 "hooks": {
  "guard": "FFSM2_VERIF",
  "enable": "none needed: every observation point named by the properties is public API, so the checks build /repo's headers unmodified; -DFFSM2_VERIF is reserved and unused",
  "baseline_off_cmd": "cmake -G Ninja -S /repo -B /repo/_build && cmake --build /repo/_build && ctest --test-dir /repo/_build -j8 --timeout 900",
  "source_commits": [],
  "add_only": True
 },
 "engines": [
  {"name": "zoo harness (scripted world, trace, predicates)", "path": "harness/", "serves_properties": ["C01","C02","C03","C04","C05","C06","C07","C08","C09","C10","C11","C12","C15","C16","C17","C18","C19"], "kind_free_text": "rapidcheck stateful generation + libFuzzer byte-level fuzzing with structure-aware decoding; ASan/UBSan builds"},
  {"name": "container harness", "path": "harness/containers/", "serves_properties": ["C10","C13","C18","C20"], "kind_free_text": "rapidcheck model-based testing for every capacity 1..255 (bit arrays also 256), plain and sanitized builds"},
  {"name": "sizes harness", "path": "harness/sizes/", "serves_properties": ["C08","C12","C14","C18"], "kind_free_text": "exhaustive (N,k) sweeps with seed-generated walks, save/load pairs, plan scenarios per origin id; manual and automatic activation; plain and sanitized builds"},
  {"name": "configuration-order harness", "path": "harness/cfgperm/", "serves_properties": ["C01","C04","C10"], "kind_free_text": "exhaustive enumeration of the 120 orders of the five configuration aliases, behavioural oracle per order"},
  {"name": "feature matrix", "path": "harness/matrix/", "serves_properties": ["C19"], "kind_free_text": "enumerated compile matrix + metamorphic runner comparison"}
 ],
 "checks": checks,
 "not_applicable": [],
 "notes": "All 20 properties are decided by property-based testing / fuzzing (see DESIGN.md). Genuine defects found on the pinned tree were repaired in /repo as separate 'fix:' commits and are listed in KNOWN_FINDINGS.txt; there is no open known finding."
}
json.dump(m, open(os.path.join(V, "MANIFEST.json"), "w"), indent=1)
print("wrote MANIFEST.json with", len(checks), "checks")
