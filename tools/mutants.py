#!/usr/bin/env python3
"""Sensitivity (mutation) protocol, DESIGN.md section 9.

Each mutant is a small textual edit of /repo/development (the single header is regenerated with tools/join.py so both
variants stay consistent, unless the mutant says otherwise). For every mutant:
  1. apply to /repo's working tree, 2. optionally build + run the repository's own test-suite in a scratch build dir,
  3. run the quick check of the properties it is expected to break, 4. `git checkout -- .` in /repo.
Usage: tools/mutants.py [--tests] [--only NAME,NAME] [--tier quick]
Results are appended to /verif/mutants/results.jsonl (one line per mutant x property).
"""
import argparse, json, os, shutil, subprocess, sys, tempfile, time

REPO = "/repo"
V = os.path.dirname(os.path.dirname(os.path.abspath(__file__)))
D = "development/ffsm2/detail/"

# (name, [properties expected to catch it], file, old, new, note)
M = [
 ("C01-swap-exit-enter", ["C01"], D + "structure/composite.inl",
  "		SubStates::wideExit	  (control, active);\n\n		active	  = requested;\n		requested = INVALID_PRONG;\n\n		SubStates::wideEnter  (control, active);",
  "		const Prong previous = active;\n\n		active	  = requested;\n		requested = INVALID_PRONG;\n\n		SubStates::wideEnter  (control, active);\n		SubStates::wideExit	  (control, previous);", "enter(new) before exit(old)"),
 ("C01-no-head-exit", ["C01"], D + "structure/composite.inl",
  "	SubStates::wideExit(control, active);\n	HeadState::deepExit(control);\n\n	active	  = INVALID_PRONG;",
  "	SubStates::wideExit(control, active);\n\n	active	  = INVALID_PRONG;", "root exit() skipped on deactivation"),
 ("C02-first-request-wins", ["C02"], D + "root/control_3.inl",
  "	if (!_locked) {\n		_core.request = Transition{_originId, stateId_};",
  "	if (!_locked && !_core.request) {\n		_core.request = Transition{_originId, stateId_};", "a later changeTo() from a callback no longer replaces an earlier one"),
 ("C02-keep-first-passing", ["C02", "C03", "C11"], D + "root_0.inl",
  "			if (cancelledByGuards(currentTransition,\n								  pendingTransition))\n				;\n			else\n				currentTransition = pendingTransition;",
  "			if (cancelledByGuards(currentTransition,\n								  pendingTransition))\n				;\n			else if (!currentTransition)\n				currentTransition = pendingTransition;", "only the first passing round is kept"),
 ("C03-cancel-first-round-only", ["C03", "C02"], D + "root_0.inl",
  "			if (cancelledByGuards(currentTransition,\n								  pendingTransition))\n				;",
  "			if (cancelledByGuards(currentTransition,\n								  pendingTransition) && i == 0)\n				;", "a veto is honoured only in the first round"),
 ("C03-replay-calls-guards", ["C03", "C11"], D + "root_0.inl",
  "		applyRequest(currentTransition,\n					 destination);\n\n		_core.previousTransition = Transition{destination};",
  "		applyRequest(currentTransition,\n					 destination);\n\n		{ Transition pending{destination}; if (cancelledByGuards(currentTransition, pending)) { _core.registry.clearRequests(); return false; } }\n\n		_core.previousTransition = Transition{destination};", "replayTransition consults guards"),
 ("C04-limit-off-by-one", ["C04"], D + "root_0.inl",
  "	for (Long i = 0;\n		i < SUBSTITUTION_LIMIT && _core.request;\n		++i)", "	for (Long i = 0;\n		i <= SUBSTITUTION_LIMIT && _core.request;\n		++i)", "L+1 rounds in processTransitions"),
 ("C04-activation-limit", ["C04"], D + "root_0.inl",
  "	for (Long i = 0;\n		 i < SUBSTITUTION_LIMIT && _core.request;\n		 ++i)", "	for (Long i = 0;\n		 i <= SUBSTITUTION_LIMIT && _core.request;\n		 ++i)", "L+1 redirections during activation"),
 ("C05-copy-event", ["C05"], D + "root_0.inl",
  "	_apex. deepPreReact(control, event);\n	_apex.	  deepReact(control, event);", "	const TEvent copy = event;\n	_apex. deepPreReact(control, event);\n	_apex.	  deepReact(control, copy);", "react() callbacks get a copy of the event"),
 ("C05-swap-postreact", ["C05"], D + "structure/composite.inl",
  "	FFSM2_IF_PLANS( subStatus	(control) |=)\n		SubStates::widePostReact(control, event, active);\n\n	FFSM2_IF_PLANS(const TaskStatus h =)\n		HeadState::deepPostReact(control, event);\n	FFSM2_IF_PLANS(headStatus	(control) |= h);",
  "	FFSM2_IF_PLANS(const TaskStatus h =)\n		HeadState::deepPostReact(control, event);\n	FFSM2_IF_PLANS(headStatus	(control) |= h);\n\n	FFSM2_IF_PLANS( subStatus	(control) |=)\n		SubStates::widePostReact(control, event, active);", "postReact: root before state"),
 ("C05-swap-query", ["C05"], D + "structure/composite.inl",
  "	HeadState::deepQuery(control, event);\n	SubStates::wideQuery(control, event, active);", "	SubStates::wideQuery(control, event, active);\n	HeadState::deepQuery(control, event);", "query: state before root"),
 ("C06-exitguard-no-origin", ["C06"], D + "structure/state_1.inl",
  "						   Method::EXIT_GUARD);\n\n	ScopedOrigin origin{control, STATE_ID};\n", "						   Method::EXIT_GUARD);\n\n", "exitGuard runs without its own origin: stateId() and request origins are wrong there"),
 ("C06-isactive-includes-requested", ["C06"], D + "root/registry.hpp",
  "		return active == stateId;", "		return active == stateId || requested == stateId;", "inside guards control.isActive() also reports the requested destination"),
 # (dropped as equivalent mutants: not restoring the origin in ~Origin, no ScopedOrigin in wrapPlanFailed -- every callback sets its own origin and the head's id is the invalid id anyway)
 ("C07-copy-4-bytes", ["C07"], D + "features/transition.hpp",
  "		: TransitionBase{origin_, destination_}\n		, payloadSet{true}\n	{\n		new (&storage) Payload{payload};\n	}",
  "		: TransitionBase{origin_, destination_}\n		, payloadSet{true}\n	{\n		memcpy(&storage, &payload, sizeof(Payload) < 4 ? sizeof(Payload) : 4);\n	}", "callback-made requests copy only 4 payload bytes"),
 ("C07-plan-payload-dropped", ["C07", "C08"], D + "root/control_3.inl",
  "					if (const Payload* const payload = it->payload())\n						changeWith(it->destination, *it->payload());\n					else\n						changeTo  (it->destination);",
  "					changeTo  (it->destination);", "plan-fired requests lose the task's payload"),
 ("C08-no-clear-on-exit", ["C08", "C09"], D + "structure/state_1.inl",
  "	FFSM2_IF_PLANS(control._core.planData.clearTaskStatus(STATE_ID));\n}", "}", "a state's reports survive its exit"),
 ("C08-cyclic-success-kept", ["C08"], D + "root/control_3.inl",
  "					if (it->cyclic())\n						_core.planData.tasksSuccesses.clear(it->origin); // SPECIFIC\n					else\n						successesToClear.clear(it->origin);\n\n					it.remove();\n				}\n			}\n\n			_core.planData.tasksSuccesses &= successesToClear;\n		} else {\n			_taskStatus.result = TaskStatus::SUCCESS;\n			headState.wrapPlanSucceeded(*this);\n\n			plan().clear();\n		}\n	}\n}\n\n#endif\n\n//------------------------------------------------------------------------------\n\ntemplate <typename TG_, typename TSL_ FFSM2_IF_SERIALIZATION(, Long NSB_) FFSM2_IF_PLANS(, Long NTC_), typename TTP_>",
  "					it.remove();\n				}\n			}\n		} else {\n			_taskStatus.result = TaskStatus::SUCCESS;\n			headState.wrapPlanSucceeded(*this);\n\n			plan().clear();\n		}\n	}\n}\n\n#endif\n\n//------------------------------------------------------------------------------\n\ntemplate <typename TG_, typename TSL_ FFSM2_IF_SERIALIZATION(, Long NSB_) FFSM2_IF_PLANS(, Long NTC_), typename TTP_>", "payload machines: a success report is never consumed by firing"),
 ("C09-no-planexists-check", ["C09"], D + "structure/composite.inl",
  "	if (s && planExists)", "	if (s)", "outcome delivered without any plan"),
 ("C09-no-clear-after-succeeded", ["C09", "C10"], D + "root/control_3.inl",
  "			_taskStatus.result = TaskStatus::SUCCESS;\n			headState.wrapPlanSucceeded(*this);\n\n			plan().clear();\n		}\n	}\n}\n\n#endif\n\n//------------------------------------------------------------------------------\n\ntemplate <typename TG_, typename TSL_ FFSM2_IF_SERIALIZATION(, Long NSB_) FFSM2_IF_PLANS(, Long NTC_), typename TTP_>",
  "			_taskStatus.result = TaskStatus::SUCCESS;\n			headState.wrapPlanSucceeded(*this);\n		}\n	}\n}\n\n#endif\n\n//------------------------------------------------------------------------------\n\ntemplate <typename TG_, typename TSL_ FFSM2_IF_SERIALIZATION(, Long NSB_) FFSM2_IF_PLANS(, Long NTC_), typename TTP_>", "payload machines: plan not cleared after planSucceeded"),
 ("C10-tasklist-last", ["C10"], D + "features/task_list.inl",
  "		} else if (_last < CAPACITY - 1) {", "		} else if (_last < CAPACITY - 2) {", "free list grows one slot short"),
 ("C10-remove-forgets-last", ["C10"], D + "root/plan_1.inl",
  "		FFSM2_ASSERT(_bounds.last == index);\n		_bounds.last = link.prev;", "		FFSM2_ASSERT(_bounds.last == index);", "removing the last task leaves bounds.last dangling"),
 ("C10-capacity-le", ["C10"], D + "root/plan_1.inl",
  "	if (_planData.tasks.count() < TASK_CAPACITY) {", "	if (_planData.tasks.count() + 1 < TASK_CAPACITY) {", "payload-free append refuses one task early"),
 ("C11-history-stores-pending", ["C11"], D + "root_0.inl",
  "	FFSM2_IF_TRANSITION_HISTORY(_core.previousTransition = currentTransition);\n}\n\n// - - - - - - - - - - - - - - - - - - - - - - - - - - - - - - - - - - - - - - -\n\ntemplate <typename TG_, typename TA_>\nFFSM2_CONSTEXPR(14)\nvoid\nR_<TG_, TA_>::processTransitions",
  "	FFSM2_IF_TRANSITION_HISTORY(if (currentTransition) _core.previousTransition = currentTransition);\n}\n\n// - - - - - - - - - - - - - - - - - - - - - - - - - - - - - - - - - - - - - - -\n\ntemplate <typename TG_, typename TA_>\nFFSM2_CONSTEXPR(14)\nvoid\nR_<TG_, TA_>::processTransitions", "history not cleared by a step that applied nothing"),
 ("C12-width-minus-one", ["C12"], D + "structure/forward.hpp",
  "	static constexpr Long  WIDTH_BITS	  = static_cast<Long>(bitWidth(WIDTH));", "	static constexpr Long  WIDTH_BITS	  = static_cast<Long>(WIDTH > 2 ? bitWidth(WIDTH) - 1 : 1);", "one bit too few for the active index when N is not a power of two"),
 ("C12-load-keeps-request", ["C02", "C06"], D + "root_0.inl",
  "	_apex.deepLoadRequested(_core.registry, stream);\n\n	_core.request.clear();", "	_apex.deepLoadRequested(_core.registry, stream);\n", "load() keeps the outstanding request"),
 ("C13-read-mask", ["C13", "C12"], D + "shared/bit_stream.inl",
  "		const Short byteChunkMask	= (1 << byteChunkWidth) - 1;", "		const Short byteChunkMask	= byteChunkWidth == 7 ? 0x3F : (1 << byteChunkWidth) - 1;", "7-bit chunks lose their top bit on read"),
 ("C13-bitwidth-pow2", ["C13", "C12"], D + "shared/utility.hpp",
  "			v >>  8 == 0 ?  8 :", "			v >>  8 == 0 ?  7 :", "bitWidth(128..255) = 7"),
 ("C14-prong-split", ["C14"], D + "structure/composite_sub_1.hpp",
  "	static constexpr Prong	  R_PRONG	  = PRONG_INDEX + sizeof...(TStates) / 2;", "	static constexpr Prong	  R_PRONG	  = PRONG_INDEX + (sizeof...(TStates) + 1) / 2;", "dispatch split differs from the type-list split for odd counts"),
 ("C15-postupdate-forward", ["C15"], D + "structure/ancestors_1.inl",
  "	Rest ::widePostUpdate(control);\n	First::	   postUpdate(control);", "	First::	   postUpdate(control);\n	Rest ::widePostUpdate(control);", "postUpdate of injections in forward order"),
 ("C16-log-after-callback", ["C16"], D + "structure/state_1.inl",
  "	FFSM2_LOG_STATE_METHOD(&Head::update,\n						   Method::UPDATE);\n\n	ScopedOrigin origin{control, STATE_ID};\n\n	Head::wideUpdate(control);\n	Head::	  update(control);\n",
  "	ScopedOrigin origin{control, STATE_ID};\n\n	Head::wideUpdate(control);\n	Head::	  update(control);\n\n	FFSM2_LOG_STATE_METHOD(&Head::update,\n						   Method::UPDATE);\n", "update() logged after the callback"),
 ("C16-changewith-no-record", ["C16"], D + "root/control_3.inl",
  "		_core.request = Transition{_originId, stateId_, payload};\n\n		FFSM2_LOG_TRANSITION(context(), _originId, stateId_);", "		_core.request = Transition{_originId, stateId_, payload};\n", "changeWith() from a callback produces no transition record"),
 ("C16-verbose-skips-callbackless", ["C16"], D + "shared/macros_on.hpp",
  "		if (auto* const logger = control._core.logger)						   \\\n			logger->recordMethod(control.context(), STATE_ID, METHOD_ID)",
  "		if (auto* const logger = control._core.logger)						   \\\n			log(METHOD, *logger, control.context(), METHOD_ID)", "verbose logging no longer records deliveries to states without the callback"),
 ("C17-copy-skips-request", ["C17"], D + "root/core.inl",
  "	, registry{other.registry}\n	, request {other.request }", "	, registry{other.registry}\n	, request {}", "copy forgets the outstanding request"),
 ("C18-bitarray-index-div4", ["C18", "C08", "C09"], D + "containers/bit_array.inl",
  "BitArrayT<NC_>::set(const TIndex index) noexcept {\n	FFSM2_ASSERT(index < CAPACITY);\n\n	const Index unit = static_cast<Index>(index) / 8;", "BitArrayT<NC_>::set(const TIndex index) noexcept {\n	FFSM2_ASSERT(index < CAPACITY);\n\n	const Index unit = static_cast<Index>(index) / 4;", "set(index) writes past the storage"),
 ("C20-clear-bit7", ["C20"], D + "containers/bit_array.inl",
  "	const uint8_t mask = 1 << bit;\n\n	_storage[unit] &= ~mask;", "	const uint8_t mask = static_cast<uint8_t>(bit == 7 ? 0x40 : 1 << bit);\n\n	_storage[unit] &= ~mask;", "clear(index) with bit 7 clears bit 6 instead"),
 ("C19-only-shipped-edited", ["C19"], "include/ffsm2/machine.hpp",
  "	FFSM2_CONSTEXPR(11)	StateID activeStateId()											  const noexcept	{ return _core.registry.active;							}",
  "	FFSM2_CONSTEXPR(11)	StateID activeStateId()											  const noexcept	{ return  _core.registry.active;						}", "shipped header edited by hand (whitespace), sources not"),
]


def sh(cmd, **kw):
    return subprocess.run(cmd, stdout=subprocess.PIPE, stderr=subprocess.STDOUT, **kw)


def apply(m):
    name, props, rel, old, new, note = m
    p = os.path.join(REPO, rel)
    s = open(p, encoding="utf-8").read()
    if s.count(old) != 1:
        return False, "pattern found %d times in %s" % (s.count(old), rel)
    open(p, "w", encoding="utf-8").write(s.replace(old, new))
    if rel.startswith("development/"):
        r = sh(["python3", "join.py"], cwd=os.path.join(REPO, "tools"))
        if r.returncode != 0:
            return False, "join.py failed"
    return True, ""


def revert():
    sh(["git", "-C", REPO, "checkout", "--", "."])


def repo_tests():
    tmp = tempfile.mkdtemp(prefix="vf-mut-")
    try:
        r = sh(["cmake", "-G", "Ninja", "-S", REPO, "-B", tmp])
        r = sh(["cmake", "--build", tmp], timeout=1800)
        out = r.stdout.decode("utf-8", "replace")
        return r.returncode == 0 and "Status: SUCCESS" in out, out[-800:]
    finally:
        shutil.rmtree(tmp, ignore_errors=True)


def main():
    ap = argparse.ArgumentParser()
    ap.add_argument("--tests", action="store_true")
    ap.add_argument("--only", default="")
    ap.add_argument("--tier", default="quick")
    a = ap.parse_args()
    only = set(x for x in a.only.split(",") if x)
    os.makedirs(os.path.join(V, "mutants"), exist_ok=True)
    res_path = os.path.join(V, "mutants", "results.jsonl")
    if sh(["git", "-C", REPO, "status", "--porcelain", "--untracked-files=no"]).stdout.strip():
        print("refusing: /repo has uncommitted changes")
        return 2
    for m in M:
        name, props = m[0], m[1]
        if only and name not in only:
            continue
        ok, why = apply(m)
        row = {"mutant": name, "note": m[5], "applied": ok}
        try:
            if not ok:
                print("%-32s NOT APPLIED: %s" % (name, why))
                continue
            if a.tests:
                t_ok, t_out = repo_tests()
                row["repo_tests_pass"] = t_ok
            for P in props:
                t0 = time.time()
                r = sh([os.path.join(V, "check"), P, "--tier", a.tier], cwd=V, env=dict(os.environ, VERIF_SEED=os.environ.get("VERIF_SEED", "1")))
                out = r.stdout.decode("utf-8", "replace")
                caught = r.returncode == 1 and "VIOLATION property=" + P in out
                first = ""
                for l in out.splitlines():
                    if l.startswith("  ") and not first:
                        first = l.strip()[:200]
                rr = dict(row, property=P, rc=r.returncode, caught=caught, secs=round(time.time() - t0, 1), first=first)
                open(res_path, "a").write(json.dumps(rr) + "\n")
                print("%-32s %s %-8s rc=%d %5.1fs tests=%s  %s" % (name, P, "CAUGHT" if caught else "MISSED", r.returncode, time.time() - t0, row.get("repo_tests_pass", "-"), first[:110]))
        finally:
            revert()
    return 0


if __name__ == "__main__":
    sys.exit(main())
