#!/usr/bin/env python3
"""Seeded-change protocol.

  tools/seeded.py import SRC_DIR ID        verify a seeded change delivered in SRC_DIR (patch.diff, demo.cpp, meta.json) in a scratch
                                           worktree (compiles, repo tests pass, demo fails with / passes without) and keep it as seeded/ID/
  tools/seeded.py run ID [PROPS...]        apply seeded/ID/patch.diff to /repo, run the quick checks (default: the property it targets),
                                           revert, record the outcome in seeded/ID/meta.json
  tools/seeded.py runall [--tier quick]    run every kept change against the check of its own property
"""
import json, os, shutil, subprocess, sys, tempfile, time

REPO = "/repo"
V = os.path.dirname(os.path.dirname(os.path.abspath(__file__)))
SEEDED = os.path.join(V, "seeded")


def sh(cmd, **kw):
    r = subprocess.run(cmd, stdout=subprocess.PIPE, stderr=subprocess.STDOUT, **kw)
    return r.returncode, r.stdout.decode("utf-8", "replace")


def do_import(src, sid):
    patch = os.path.join(src, "patch.diff")
    demo = os.path.join(src, "demo.cpp")
    meta = json.load(open(os.path.join(src, "meta.json"))) if os.path.exists(os.path.join(src, "meta.json")) else {}
    wt = tempfile.mkdtemp(prefix="vf-seed-")
    os.rmdir(wt)
    rc, out = sh(["git", "-C", REPO, "worktree", "add", "--detach", wt, "HEAD"])
    if rc != 0:
        print(out)
        return 2
    res = {}
    try:
        # without the change: the demo passes
        rc, out = sh(["g++", "-std=c++17", "-I" + os.path.join(wt, "include"), "-I" + os.path.join(wt, "development"), demo, "-o", os.path.join(wt, "demo0")])
        if rc != 0:
            print("demo does not compile on the unchanged tree:\n" + out[-1500:])
            return 1
        rc0, out0 = sh([os.path.join(wt, "demo0")], timeout=120)
        res["demo_passes_without_change"] = rc0 == 0
        rc, out = sh(["git", "-C", wt, "apply", patch])
        if rc != 0:
            print("patch does not apply:\n" + out)
            return 1
        rc, out = sh(["g++", "-std=c++17", "-I" + os.path.join(wt, "include"), "-I" + os.path.join(wt, "development"), demo, "-o", os.path.join(wt, "demo1")])
        res["compiles_with_change"] = rc == 0
        rc1, out1 = sh([os.path.join(wt, "demo1")], timeout=120) if rc == 0 else (99, out)
        res["demo_fails_with_change"] = rc1 != 0
        b = os.path.join(wt, "_b")
        sh(["cmake", "-G", "Ninja", "-S", wt, "-B", b])
        rc, out = sh(["cmake", "--build", b], timeout=3600)
        res["repo_tests_pass_with_change"] = rc == 0 and "Status: SUCCESS" in out
        res["repo_tests_tail"] = out.strip().splitlines()[-3:]
        res["demo_output_with_change"] = out1[-600:]
    finally:
        sh(["git", "-C", REPO, "worktree", "remove", "--force", wt])
        shutil.rmtree(wt, ignore_errors=True)
    # for the compile-level property C19 a demo that no longer compiles with the change IS the demonstration
    c19 = (meta.get("property") or sid.split("-")[0]) == "C19"
    ok = res.get("demo_passes_without_change") and (res.get("compiles_with_change") or c19) and res.get("demo_fails_with_change") and res.get("repo_tests_pass_with_change")
    print(json.dumps(res, indent=1))
    if not ok:
        print("REJECTED: the change does not satisfy the protocol")
        return 1
    d = os.path.join(SEEDED, sid)
    os.makedirs(d, exist_ok=True)
    shutil.copy(patch, os.path.join(d, "patch.diff"))
    shutil.copy(demo, os.path.join(d, "demo.cpp"))
    m = {"id": sid, "property": meta.get("property", sid.split("-")[0]), "summary": meta.get("summary", ""), "needs": meta.get("needs", ""), "files": meta.get("files", []),
         "author": "independent sub-agent given only the property text and a scratch worktree",
         "verified": {"what_i_ran": "fresh worktree of /repo HEAD: g++ -std=c++17 demo.cpp passes; git apply patch.diff; library + demo compile; demo fails; cmake --build runs the repository suite: all tests pass", **res}, "checks": {}}
    json.dump(m, open(os.path.join(d, "meta.json"), "w"), indent=1)
    print("kept as", d)
    return 0


def do_run(sid, props, tier="quick"):
    d = os.path.join(SEEDED, sid)
    m = json.load(open(os.path.join(d, "meta.json")))
    if not props:
        props = [m["property"]]
    rc, out = sh(["git", "-C", REPO, "status", "--porcelain", "--untracked-files=no"])
    if out.strip():
        print("refusing: /repo has uncommitted changes")
        return 2
    rc, out = sh(["git", "-C", REPO, "apply", os.path.join(d, "patch.diff")])
    if rc != 0:
        print("patch does not apply to /repo:", out)
        return 2
    try:
        for P in props:
            t0 = time.time()
            rc, out = sh([os.path.join(V, "check"), P, "--tier", tier], cwd=V)
            caught = rc == 1 and ("VIOLATION property=" + P) in out
            first = ""
            lines = out.splitlines()
            for i, l in enumerate(lines):
                if l.startswith("VIOLATION") and i + 1 < len(lines):
                    first = lines[i + 1].strip()[:300]
                    break
            m.setdefault("checks", {})[P + ":" + tier] = {"caught": caught, "rc": rc, "secs": round(time.time() - t0, 1), "first_violation": first}
            print("%-28s %s %s rc=%d %.1fs  %s" % (sid, P, "CAUGHT" if caught else "MISSED", rc, time.time() - t0, first[:140]))
    finally:
        sh(["git", "-C", REPO, "checkout", "--", "."])
    json.dump(m, open(os.path.join(d, "meta.json"), "w"), indent=1)
    return 0


def main():
    if len(sys.argv) < 2:
        print(__doc__)
        return 2
    if sys.argv[1] == "import":
        return do_import(sys.argv[2], sys.argv[3])
    if sys.argv[1] == "run":
        tier = "quick"
        args = [a for a in sys.argv[3:] if not a.startswith("--")]
        if "--thorough" in sys.argv:
            tier = "thorough"
        return do_run(sys.argv[2], args, tier)
    if sys.argv[1] == "runall":
        tier = "thorough" if "--thorough" in sys.argv else "quick"
        for sid in sorted(os.listdir(SEEDED)):
            if os.path.exists(os.path.join(SEEDED, sid, "patch.diff")):
                do_run(sid, [], tier)
        return 0
    return 2


if __name__ == "__main__":
    sys.exit(main())
