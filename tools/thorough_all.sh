#!/bin/bash
# Runs the thorough tier of every check once (on an unchanged tree every line must read rc=0). usage: tools/thorough_all.sh [fuzz-seconds]
cd "$(dirname "$0")/.."
export VF_FUZZ_SECS=${1:-240}
./check --setup > /dev/null 2>&1
for p in C01 C02 C03 C04 C05 C06 C07 C08 C09 C10 C11 C12 C13 C14 C15 C16 C17 C18 C19 C20; do
  t0=$(date +%s)
  out=$(./check $p --tier thorough 2>&1)
  rc=$?
  echo "$p rc=$rc $(( $(date +%s) - t0 ))s $(echo "$out" | grep -E 'VIOLATION|INCONCLUSIVE|KNOWN-FINDING|held on' | head -3 | tr '\n' ' ' | cut -c1-300)"
done
